#!/bin/sh
# usage: tools/run_all.sh [tier] [seed]   -- every registered check once; prints id, exit code, wall seconds, VIOLATION lines
tier=${1:-quick}; seed=${2:-0}
cd "$(dirname "$0")/.."
for i in 01 02 03 04 05 06 07 08 09 10 11 12 13 14 15 16 17 18 19 20; do
  s=$(date +%s)
  out=$(VERIF_SEED=$seed ./check C$i --tier $tier 2>&1); rc=$?
  e=$(date +%s)
  echo "C$i rc=$rc $((e-s))s $(echo "$out" | grep -c '^KNOWN-FINDING') known $(echo "$out" | grep -E '^VIOLATION|HARNESS' | head -3 | tr '\n' ' ')"
done
