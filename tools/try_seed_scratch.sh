#!/bin/sh
# usage: tools/try_seed_scratch.sh <seed-id> <check-id> [tier]
# like try_seed.sh but in a scratch worktree of /repo's HEAD (VERIF_REPO), so /repo itself is not touched
sid=$1; chk=$2; tier=${3:-quick}
wt=/tmp/try-$sid
git -C /repo worktree remove --force $wt 2>/dev/null
git -C /repo worktree add -q --detach $wt HEAD || exit 2
cp /repo/src/icalendar/_version.py $wt/src/icalendar/_version.py
git -C $wt apply /verif/seeded/$sid/patch.diff || { echo "patch does not apply"; git -C /repo worktree remove --force $wt; exit 2; }
cd /verif && VERIF_REPO=$wt VERIF_EVIDENCE=/tmp/evidence-seed-$sid.json ./check $chk --tier $tier 2>&1 | grep -v '^WARNING' | tail -${LINES_SHOWN:-8}
git -C /repo worktree remove --force $wt
rm -f /tmp/evidence-seed-$sid.json
