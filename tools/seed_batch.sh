#!/bin/sh
# usage: tools/seed_batch.sh <file>   lines: seed-id|property|agent-worktree|needs-to-manifest[|extra checks to try, space separated]
# confirms every seed (4 at a time), then tries each against its property's check (and the extra ones) in scratch worktrees
f=$1
n=0
while IFS='|' read -r sid prop wt needs extra; do
  [ -z "$sid" ] && continue
  ( /verif/tools/confirm_seed.py "$sid" "$prop" "$wt" "$needs" > /tmp/confirm-$sid.log 2>&1
    /venv/bin/python -c "import json;d=json.load(open('/verif/seeded/$sid/meta.json'));print('CONFIRM', d['id'], d['confirmed'])" 2>/dev/null ) &
  n=$((n+1)); [ $((n % 4)) -eq 0 ] && wait
done < "$f"
wait
while IFS='|' read -r sid prop wt needs extra; do
  [ -z "$sid" ] && continue
  for c in $prop $extra; do
    echo "=== $sid vs $c"
    LINES_SHOWN=4 /verif/tools/try_seed_scratch.sh "$sid" "$c" | grep -v '^KNOWN' | cut -c1-260
  done
done < "$f"
