#!/venv/bin/python
"""Confirm a seeded property-breaking change produced by an independent agent and store it under /verif/seeded/.

usage: tools/confirm_seed.py <seed-id> <property> <agent-worktree> "<what it needs to manifest>"

Steps (all in a fresh scratch worktree of /repo's HEAD outside /repo and /verif, removed afterwards):
  demo on the clean tree must exit 0; patch must apply; demo on the patched tree must exit != 0;
  the repository's own suite must still match BASELINE.json (tools/baseline.py).
"""
import json
import os
import shutil
import subprocess
import sys

sid, prop, wt, needs = sys.argv[1:5]
dst = f"/verif/seeded/{sid}"
os.makedirs(dst, exist_ok=True)
diff = subprocess.run(["git", "-C", wt, "diff", "--", "src"], capture_output=True, text=True, check=True).stdout
assert diff.strip(), "empty diff"
assert "/tests/" not in diff, "touches tests"
open(f"{dst}/patch.diff", "w").write(diff)
shutil.copy(f"{wt}/demo.py", f"{dst}/demo.py")
scratch = f"/tmp/confirm-{sid}"
subprocess.run(["git", "-C", "/repo", "worktree", "remove", "--force", scratch], capture_output=True)
subprocess.run(["git", "-C", "/repo", "worktree", "add", "-q", "--detach", scratch, "HEAD"], check=True)
shutil.copy("/repo/src/icalendar/_version.py", f"{scratch}/src/icalendar/_version.py")  # untracked, generated
log = {}
try:
    env = dict(os.environ, PYTHONPATH=f"{scratch}/src", PYTHONDONTWRITEBYTECODE="1")

    def demo():
        p = subprocess.run(["/venv/bin/python", f"{dst}/demo.py"], env=env, capture_output=True, text=True, cwd=scratch,
                           timeout=600)
        return p.returncode, (p.stdout + p.stderr).strip().splitlines()[-3:]

    log["demo_clean"] = demo()
    ap = subprocess.run(["git", "-C", scratch, "apply", "--3way", f"{dst}/patch.diff"], capture_output=True, text=True)
    log["apply"] = [ap.returncode, ap.stderr.strip()[-300:]]
    assert ap.returncode == 0, log
    # re-export the patch against the current HEAD so that `git -C /repo apply` works verbatim
    diff2 = subprocess.run(["git", "-C", scratch, "diff", "HEAD", "--", "src"], capture_output=True, text=True).stdout
    open(f"{dst}/patch.diff", "w").write(diff2)
    log["demo_patched"] = demo()
    b = subprocess.run(["/verif/tools/baseline.py", scratch], capture_output=True, text=True)
    log["repo_suite_with_patch"] = [b.returncode, b.stdout.strip().splitlines()[-2:]]
finally:
    subprocess.run(["git", "-C", "/repo", "worktree", "remove", "--force", scratch], capture_output=True)
ok = log["demo_clean"][0] == 0 and log["demo_patched"][0] != 0 and log["repo_suite_with_patch"][0] == 0
head = subprocess.run(["git", "-C", "/repo", "rev-parse", "--short", "HEAD"], capture_output=True, text=True).stdout.strip()
meta = {"id": sid, "property": prop, "needs_to_manifest": needs, "confirmed": ok, "confirmed_at_repo_head": head,
        "what_was_run": {"demo on clean tree (exit, tail)": log["demo_clean"],
                         "demo with patch (exit, tail)": log["demo_patched"],
                         "repo suite with patch vs BASELINE.json (exit, tail)": log["repo_suite_with_patch"]},
        "detected_by": None}
json.dump(meta, open(f"{dst}/meta.json", "w"), indent=1)
print(json.dumps(meta, indent=1))
if not ok:
    print("NOT CONFIRMED")
    sys.exit(1)
