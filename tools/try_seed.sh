#!/bin/sh
# usage: tools/try_seed.sh <seed-id> <check-id> [tier]   -- apply a seeded change to /repo, run the check, undo it
sid=$1; chk=$2; tier=${3:-quick}
cd /repo || exit 2
[ -z "$(git status --porcelain -- src)" ] || { echo "/repo not clean"; exit 2; }
git apply /verif/seeded/$sid/patch.diff || { echo "patch does not apply"; exit 2; }
cd /verif && VERIF_EVIDENCE=/tmp/evidence-seed-$sid.json ./check $chk --tier $tier 2>&1 | grep -v '^WARNING' | tail -${LINES_SHOWN:-8}
rc=$?
git -C /repo checkout -- . 
rm -f /tmp/evidence-seed-$sid.json
