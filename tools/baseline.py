#!/venv/bin/python
"""Run the repository's own test suite (guard OFF) in REPO (default /repo) and compare with /root/.vp/BASELINE.json.

usage: tools/baseline.py [REPO_DIR]     exit 0 iff every stable_pass test passed.
"""
import json
import os
import subprocess
import sys
import tempfile
import xml.etree.ElementTree as ET

repo = sys.argv[1] if len(sys.argv) > 1 else "/repo"
base = json.load(open("/root/.vp/BASELINE.json"))
fd, xml = tempfile.mkstemp(suffix=".xml")
os.close(fd)
env = dict(os.environ)
env.pop("ICALENDAR_VERIF", None)
if os.path.realpath(repo) != "/repo":
    env["PYTHONPATH"] = os.path.join(repo, "src")
env["PYTHONDONTWRITEBYTECODE"] = "1"
p = subprocess.run(["/venv/bin/python", "-m", "pytest", "-q", "-p", "no:cacheprovider", "--timeout=900",
                    "--continue-on-collection-errors", f"--junitxml={xml}"], cwd=repo, env=env,
                   stdout=subprocess.PIPE, stderr=subprocess.STDOUT, text=True)
passed = set()
failed = set()
for tc in ET.parse(xml).getroot().iter("testcase"):
    tid = f"{tc.get('classname')}::{tc.get('name')}".replace(os.path.realpath(repo) + "/", "/repo/")
    if any(c.tag in ("failure", "error") for c in tc):
        failed.add(tid)
    elif not any(c.tag == "skipped" for c in tc):
        passed.add(tid)
os.unlink(xml)
missing = sorted(set(base["stable_pass"]) - passed)
print(p.stdout.strip().splitlines()[-1])
print(f"stable_pass={len(base['stable_pass'])} passed_now={len(passed)} failed_now={len(failed)} "
      f"stable_pass_not_passing={len(missing)}")
for m in missing[:20]:
    print("  NOT PASSING:", m)
sys.exit(1 if missing else 0)
