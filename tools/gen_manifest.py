#!/usr/bin/env python3
"""Writes /verif/MANIFEST.json from the table below and validates it (python3-vt has jsonschema)."""
import json
import subprocess
import sys

CHECKS = {
    # id: (technique, level text, level note, design ref)
    "C17": ("explicit-state BFS to fixpoint over mapping-operation histories on the real objects vs. a reference dict",
            "Every operation of a 121-operation menu is executed in every reachable state (fixpoint, finite alphabet with "
            "case-variant and bytes keys) of 5 real classes and compared step by step with a dict keyed by upper-cased "
            "names; canonical ordering is enumerated over all insertion permutations of <=4 of 8 keys. Complete within the "
            "alphabet; says nothing about keys/values outside it.",
            "trusted: refmodel/caseless.py (80 lines); pop() default None taken as documented signature", "3/C17"),
    "C06": ("bounded-exhaustive enumeration of lines over a width alphabet at every alignment with the 75-octet fold boundary, executed on the real folder",
            "All lines a^p.w.b^s (p 0..160, w over {1,2,3,4-octet chars, SP, TAB, CR} up to length 3/4) and all periodic mixtures "
            "are folded by the real code and checked byte-wise against the statement (<=75 octets, UTF-8 per line, one space, exact "
            "unfolding), alone and inside serialised components. Complete for the alphabet and lengths stated; other code points "
            "are represented by their width class.",
            "trusted: 40-line byte-level oracle in checks/c06.py; characters outside the alphabet assumed to behave like their UTF-8 width class", "3/C06"),
    "C07": ("bounded-exhaustive enumeration of all strings over the critical escape alphabet, round-tripped through the real codec, property and list paths vs. an RFC 5545 TEXT reference model",
            "Every string over {\\ n N ; , : \" % 2 C CR LF SP a} up to length 4 (thorough 5, codec+SUMMARY 6) plus seed-rotated pairs of other "
            "Unicode characters goes through vText, Event.add/to_ical/from_ical and CATEGORIES lists; decoded values must lie in the set the "
            "statement allows. Mismatches are tolerated only if they equal the prediction of the documented placeholder defect model "
            "(open finding), so any other change of behaviour on already-failing inputs still alarms.",
            "trusted: refmodel/rfc_text.py (TEXT codec, strict line splitter, placeholder defect predictor)", "3/C07"),
    "C08": ("bounded-exhaustive enumeration of parameter maps (names in several cases, all value strings over a 15-symbol alphabet, list shapes) on three real serialise/parse paths vs. a strict RFC 3.1/3.2 splitter",
            "All values up to length 3 (thorough 4) x 7 list shapes x 5 names / 4 name pairs x {Parameters alone, content line, parsed component}; "
            "round-trip equality, upper-case sorted names, quoting of , ; : and agreement with an independent strict splitter (RFC 6868 reading accepted). "
            "Placeholder mismatches tolerated only when equal to the defect model's prediction.",
            "trusted: refmodel/rfc_text.py; values free of double quotes and control characters as the statement says", "3/C08"),
    "C05": ("bounded-exhaustive (pairwise-cut) enumeration of names x parameter maps x values over the delimiter/escape alphabet through the real join/split and a sentinel-guarded component round trip",
            "Every parameter value and every value over {\\ ; : , \" % 2 C CR LF a SP} up to length 3 (thorough 4), paired with menus of 20 hostile values / "
            "parameter values, all pairs up to length 2, 4 string value classes and a typed menu: from_parts/parts must return what was joined, and the "
            "VEVENT / strict VTODO round trip must end in exactly one of the statement's three outcomes (refused, rejected alone, exact structure). "
            "Placeholder mismatches tolerated only when equal to the defect model's prediction.",
            "trusted: refmodel/rfc_text.py, mc/snapshot.structure; refusal accepted only for content the format cannot carry", "3/C05"),
    "C03": ("exhaustive sweep of finite value domains (all dates, seconds of day, UTC offsets, bounded durations) and structured grids/grammars for unbounded ones, executed on the real codec classes vs. RFC regexes and reference decoders",
            "Quick: all dates 1900-2100 (+ month boundaries of every other year), every second of the day, every whole-second offset |o|<24h, every "
            "duration |d|<72h, grids for periods/ints/floats/binary/geo and all weekday/frequency/month texts; thorough: all 3.65M dates and durations to 40 days. "
            "Each value: encode matches the RFC grammar and denotes the value, decode inverts it, the combined decoder classifies it. "
            "'All finite floats' is a grid, not a sweep (stated).",
            "trusted: refmodel/rfc_values.py (regexes written from RFC 5545 3.3, reference decoders)", "3/C03"),
    "C19": ("bounded-exhaustive enumeration of recurrence rules (FREQ x all subsets of <=2/3 optional parts x all menu values x key case x value shape x construction path) through the real vRecur codec vs. a reference text/typing model and a differential dateutil expansion",
            "Every rule over 16 optional parts (2-5 caller values each, incl. negative/ordinal/leap-month/RSCALE/SKIP/X parts, UNTIL as date, floating, UTC) "
            "with <=2 (thorough 3) optional parts: encoded text must match the RECUR grammar with FREQ first and denote exactly the supplied parts, decoding "
            "yields the reference's typed values, re-encoding is stable, and dateutil computes the same first 12 occurrences from the text as from an rrule built directly from the supplied parts.",
            "trusted: the part menus/reference typing in checks/c19.py, dateutil as the 'standard expander'; jointly unsatisfiable BY pairs are round-tripped but not expanded", "3/C19"),
    "C16": ("explicit-state BFS over setter/deleter/add histories on real Event/Todo/Journal objects (fixpoint for setters) plus exhaustive enumeration of parsed property combinations, vs. a reference model of the RFC start/end/duration rules",
            "Setter/deleter histories are searched to fixpoint (117 states x 49 operations per class, every operation in every reachable state), "
            "histories with add() to depth 3 (thorough 4); all combinations of <=2 DTSTART/<=2 end/<=2 DURATION lines (typed and mistyped) are parsed under both "
            "providers. In every state the stored properties equal the model's, at most one of end/DURATION after setter-only histories, and start/end/duration give the model's value or exactly the documented error class.",
            "trusted: the Model class in checks/c16.py (RFC 5545 3.6.1/3.6.2/3.8.2 rules); value menu of 8 date/date-time values of 4 kinds and 4 durations incl. zero", "3/C16"),
    "C18": ("bounded-exhaustive enumeration of calendars (subsets of zoned-value placements x subsets of pre-existing VTIMEZONEs x build path x provider) followed by the fixed query/repair history, vs. a set-comprehension reference",
            "Every subset of <=3 of 10 placements (depth 1-3, multi-line RDATE, FREEBUSY periods, zoned TRIGGER in a nested alarm, X- property) x all 64 subsets of 6 VTIMEZONE presets "
            "(used, duplicate, unused, defining the unknown id, unknown unused, without TZID), parsed and API-built: get_used/get_missing equal the reference sets and never fail; after add_missing_timezones "
            "every known missing id has exactly one VTIMEZONE, unknown ids stay missing, existing VTIMEZONEs are untouched, and two further calls add nothing.",
            "trusted: the placement table in checks/c18.py; add_missing_timezones is called with a 2024 window (default window for single placements) to keep generation cheap", "3/C18"),
    "C14": ("bounded-exhaustive enumeration of components x alarm lists (all single alarms of the TRIGGER x RELATED x REPEAT/DURATION product, pairs/triples over a reduced menu) executed on the real Alarms computation vs. a reference model",
            "2 component kinds x 6 start kinds (incl. a zoned start 12h before a DST change) x 4 end kinds x 168 single alarm shapes x {API, parsed} x {zoneinfo, pytz} plus all ordered pairs "
            "(thorough: triples) of a reduced menu: per alarm the sequence anchor+TRIGGER+k*DURATION, the multiset of all times, Alarm.triggers, and the documented error classes exactly where information is missing or invalid.",
            "trusted: refmodel/alarms.py; 'plus' = provider-native addition (wall-clock zoneinfo / normalize pytz)", "3/C14"),
    "C15": ("exhaustive enumeration of the acknowledgement decision table (all weak orderings of trigger, alarm ack, component ack, snooze on a 5-point grid, each possibly absent) x trigger kind x local zone x provider x build path on the real AlarmTime logic",
            "All 6x6x6 combinations of ACKNOWLEDGED / DTSTAMP-or-X-MOZ-LASTACK / X-MOZ-SNOOZE-TIME relative to the trigger, for zoned, UTC, floating and date triggers, with the local zone unset / by name / by object, "
            "both providers, three build paths (setters, typed add, parsed) and 1-2 alarms: is_active, the reported trigger, the active sub-list, monotonicity in the acknowledgement and 'only LocalTimezoneMissing' are compared with the statement's table.",
            "trusted: refmodel/alarms.py (10-line decision table); floating/date triggers interpreted in the configured local zone", "3/C15"),
    "C10": ("exhaustive enumeration of insertion histories (all permutations of all property / parameter subsets, all interleavings of repeated values and subcomponents, nested trees with sorting on and off) with differential comparison of states reached by different histories, plus purity and hash-seed sweeps",
            "All permutations of every subset (<=5, thorough 6, of 7) of distinct property names on 5 component kinds and of 5 parameters must give byte-identical sorted output and exact insertion order with sorted=False; "
            "all 144 insertion orders of a 4-level nested tree with sorting on/off; all 120 interleavings keep repeated values/subcomponents in insertion order; purity of to_ical over a 28-value-class menu; "
            "BEGIN/END balance of every output; identical digests of ~250 trees under 8 (thorough 64) PYTHONHASHSEED values.",
            "trusted: the byte-level outline/balance parsers in checks/c10.py; hash seeds are a finite range, not all 2^32", "3/C10"),
    "C20": ("bounded-exhaustive enumeration of all ordered labelled component trees up to 4 (thorough 5) nodes with per-tree traversal, permutation, single-perturbation and copy oracles, and all ordered pairs of trees up to 3 nodes vs. a reference multiset equality",
            "12 747 trees (thorough ~2.5e5) over 7 kinds: walk/walk(name in 3 cases)/walk(select)/accessors equal the reference pre-order; equality is reflexive, False against non-components, invariant under all "
            "subcomponent permutations, property insertion order and name case, and distinguishes every single perturbation in both directions; deepcopy/pickle/parse copies are equal and serialise identically; "
            "550 564 ordered pairs agree with the reference and are symmetric; zone-carrying calendars under both providers.",
            "trusted: canon()/preorder() reference in checks/c20.py; pickle protocols >= 2; one open finding (pytz custom zones not picklable) matched by exception signature", "3/C20"),
    "C02": ("bounded-exhaustive enumeration of API-built trees (every RFC 5545 property name x value menus x parameter maps x containers x build paths x providers; all insertion orders of repeated values; all call sequences up to depth 3/4) round-tripped through the real serialiser and parser vs. an RFC property table",
            "46 property names with their documented Python value kinds (text with delimiters, int, geo, recur, offsets, date/floating/UTC/zoned date-times, durations, periods, date and period lists), 5 parameter maps, RFC containers + an unknown component, "
            "add / item assignment / property setters, both providers: after to_ical+from_ical nesting, names, parameters (+ only VALUE/TZID), decoded values and the RFC value class agree, and the emitted line satisfies the VALUE / TZID tag clause; repeated values keep their order; "
            "all call sequences of length <=4 (thorough 5) over a 12-call menu equal a plain tree model.",
            "trusted: refmodel/rfc_props.py (written from RFC 5545 3.7/3.8), rfc_text strict splitter, rfc_values regexes; decoded() not used as observer; one open finding (mixed-zone date lists) matched by input kind + exact observation", "3/C02"),
    "C01": ("bounded-exhaustive enumeration of calendar texts in three layers (all component trees up to 4/5 nodes incl. forests; 10 line templates x all strings over a 14-symbol alphabet up to length 4/5 plus typed value lines; all ordered pairs/triples of a 40-line menu) parsed, serialised and re-parsed on the real code vs. a strict reference reader",
            "Idempotence (tree, bytes, no rejection of own output) is checked for every input from_ical accepts; exactness (the first parse denotes exactly the reference reader's tree, and the input is not rejected) for every input the strict RFC reader accepts. "
            "Mismatches are tolerated only if the observed tree equals the reference reader run with the documented placeholder defect model on a text that contains a trigger sequence (plus the documented TEXT normalisation acting on such a value).",
            "trusted: refmodel/tree.py (strict structure reader), rfc_text.parse_line, the property type table; END names must match BEGIN to count as well-formed", "3/C01"),
    "C09": ("deviation-bounded exhaustive exploration from 14 well-formed seed calendars: every single fold position (SP/TAB), periodic folds, and every composition of {LF, BOM, str, trailing blank lines} x name re-casing (4 casings on 4 kinds of names) x refolding, parsed by the real code under both providers and compared differentially with the seed's parse",
            "13 776 fold placements and 56 280 (thorough 258 048) rewrite compositions: the variant's canonical snapshot (incl. zone key and UTC offset of every date-time) and its re-serialisation must equal those of the base text. "
            "Seeds cover every name-sensitive parse path (TZID on DTSTART/DTEND/DUE/RECURRENCE-ID/RDATE/EXDATE/FREEBUSY, custom VTIMEZONE defined before use, CATEGORIES, alarms, unknown components, non-ASCII long lines, quoted parameters).",
            "trusted: the line re-caser/refolder in checks/c09.py; folds only between characters; str inputs starting with U+FEFF excluded", "3/C09"),
    "C11": ("exhaustive sweep of every zone id of each provider x wall times derived from the zone's own transitions (read independently from TZif files / the provider table) x value shapes x tzinfo sources, round-tripped through the real serialiser and parser and compared with the provider library's own offset",
            "Every zoneinfo and pytz zone id (read at run time) x each transition instant -1s/0/+1s in the old and the new offset, mid-points and 8 fixed times (quick: first/last three transitions of 1970-2037; thorough: all of 1900-2100) x "
            "{DTSTART, RDATE list, RDATE period, FREEBUSY explicit/by-duration period, period spanning the transition} x tzinfo from zoneinfo/pytz/dateutil x both providers; DTSTAMP/CREATED/LAST-MODIFIED/ACKNOWLEDGED via add and descriptors: emitted line, parsed wall time, zone key and provider-assigned offset.",
            "trusted: refmodel/rfc_tz.py TZif reader (self-validated against zoneinfo per zone at run time; a disagreement is a harness error), the provider library as ground truth for its own offsets", "3/C11"),
    "C13": ("exhaustive sweep of every zone id x providers x date windows: the generated VTIMEZONE is checked on the partition induced by independently read source breakpoints and generated onsets (piecewise-constant argument makes this every instant), with a predictor that re-implements the generator's documented search on the ground-truth breakpoints",
            "Every zoneinfo zone (thorough: also every pytz zone and 20 windows; quick: a seed-rotated third of pytz zones and one rotated short window): well-formedness, RFC 5545 onset interpretation, the converted zone and regeneration vs. the source's offset and abbreviation at each breakpoint -1s/0/+1s and interval interior. "
            "Deviations are tolerated only if they equal the prediction of the open findings' model (onset written in the new offset's wall clock, name-only transitions invisible, short observances stepped over, 24h deltas).",
            "trusted: refmodel/rfc_tz.py (TZif reader, onset interpreter), refmodel/tree.py reader for the generated text, the simulation predictor in checks/c13.py; dateutil-built zones are matched by a weaker signature (deviation only where the component itself deviates or within one offset-delta of an edge)", "3/C13"),
    "C12": ("bounded-exhaustive enumeration of consistent VTIMEZONE definitions (8 layouts x offsets x rule shapes x bounds x names) converted under both providers and evaluated at every onset +-1s against an RFC 5545 onset interpreter, plus explicit-state BFS over parse histories that share the process-wide zone cache",
            "(A) ~4 700 (thorough ~9 000) consistent definitions: utcoffset, tzname (when given) and dst()==0 for STANDARD at every onset -1s/0/+1s up to 2037 and interval mid-points, for zoneinfo- and pytz-built zones. "
            "(B) every history of <=2 (thorough 3) operations out of 19 (parse of calendar(TZID, definition, VTIMEZONE position), provider switch): each DTSTART of the calendar just parsed must have the offset of its own definition. "
            "Open findings (process-wide cache, forward references, dateutil near-onset behaviour) are matched by a cache model / a windowed signature.",
            "trusted: refmodel/rfc_tz.py interpreter and own yearly n-th-weekday expander; only consistent definitions; dateutil-built zones tolerated only within |offset|+|delta| of an onset for three named layouts", "3/C12"),
    "C04": ("deviation-bounded exhaustive exploration (every single deviation at every line / byte of well-formed seeds, pairs in the thorough tier) plus bounded-exhaustive token soup, each input executed under both providers x multiple x bytes/str with a watchdog; differential isolation oracle over all ordered selections of good and bad lines",
            "39 seeds in quick (14 generated + 25 smallest repository examples; thorough: all examples): delete/duplicate/swap/drop-value/drop-name/re-kind/16 junk values/36 hostile lines at every line, truncation at every byte, 64-deep wrapping; all sequences of <=2 (3) of 48 soup lines x 3 wrappers, all byte strings <=2, all strings <=3 over 11 characters: "
            "from_ical + to_ical + walk terminate and raise nothing but ValueError. Isolation: ~76 000 VEVENT bodies (<=4 of 18 lines, <=2 bad, nested alarm): the VEVENT equals the parse without the bad lines, one error entry per bad line, strict containers raise ValueError.",
            "trusted: the deviation generator in checks/c04.py; 'bad line' is defined operationally (parsing it alone in a strict component raises ValueError); termination observed with a watchdog, not proved; one open finding (sub-daily RRULE in a VTIMEZONE under pytz) matched by input kind + time-out", "3/C04"),
}
REASON_PENDING = "check under construction in this session; not claimed until it has been built, silenced on the unchanged tree and shown to detect a seeded change"
ALL = [f"C{i:02d}" for i in range(1, 21)]


def main():
    extra = {}
    try:
        extra = json.load(open("/verif/tools/manifest_checks.json"))
    except FileNotFoundError:
        pass
    checks = dict(CHECKS)
    checks.update({k: tuple(v) for k, v in extra.items()})
    m = {
        "version": 1,
        "setup_cmd": "true",
        "hooks": {"guard": "ICALENDAR_VERIF", "enable": "no source hooks are needed: checks import /repo/src directly "
                  "(ICALENDAR_VERIF=1 is exported by ./check but nothing in /repo reads it)",
                  "baseline_off_cmd": "/verif/tools/baseline.py /repo", "source_commits": [], "add_only": True},
        "engines": [{"name": "mc", "path": "/verif/mc", "serves_properties": sorted(checks),
                     "kind_free_text": "hand-written bounded-exhaustive / explicit-state explorer in Python that drives the "
                     "real library code and compares every step with small reference models (mc/refmodel)"}],
        "checks": [],
        "notes": "All checks: ./check <ID> --tier quick|thorough; VERIF_SEED only rotates additional exhaustive slices. "
                 "exit 0 held / exit 1 VIOLATION line / exit 2 harness error. Known findings: KNOWN_FINDINGS.txt.",
        "not_applicable": [],
    }
    for pid in sorted(checks):
        tech, text, note, ref = checks[pid]
        text += (" [This summary describes the check as first built; twenty rounds of seeded changes have since added spaces "
                 "(listed per property in DESIGN.md sections 5 and 8). The exact spaces, alphabets and bounds of a run are in "
                 "coverage.rule / coverage.bounds of the evidence file, which the check writes itself. Every space enumerated by "
                 "the engine is also run under a second configuration in which all registry classes are replaced by user "
                 "subclasses that override nothing (DESIGN.md 2.3).]")
        m["checks"].append({
            "property_id": pid,
            "quick_cmd": f"./check {pid} --tier quick",
            "thorough_cmd": f"./check {pid} --tier thorough",
            "evidence_file": f"/verif/evidence/{pid}.json",
            "replay_cmd_template": f"./check {pid} --replay {{path}}",
            "engine": "mc",
            "level_claimed": {"category": "model_checking", "text": text, "design_ref": f"DESIGN.md section {ref}"},
            "level_note": note,
            "technique": tech,
        })
    for pid in ALL:
        if pid not in checks:
            m["not_applicable"].append({"property_id": pid, "reason": REASON_PENDING})
    json.dump(m, open("/verif/MANIFEST.json", "w"), indent=1)
    code = ("import json,jsonschema;jsonschema.validate(json.load(open('/verif/MANIFEST.json')),"
            "json.load(open('/root/.vp/MANIFEST.schema.json')));print('MANIFEST valid')")
    sys.exit(subprocess.run(["python3-vt", "-c", code]).returncode)


main()
