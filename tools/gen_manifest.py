#!/usr/bin/env python3
"""Writes /verif/MANIFEST.json from the table below and validates it (python3-vt has jsonschema)."""
import json
import subprocess
import sys

CHECKS = {
    # id: (technique, level text, level note, design ref)
    "C17": ("explicit-state BFS to fixpoint over mapping-operation histories on the real objects vs. a reference dict",
            "Every operation of a 121-operation menu is executed in every reachable state (fixpoint, finite alphabet with "
            "case-variant and bytes keys) of 5 real classes and compared step by step with a dict keyed by upper-cased "
            "names; canonical ordering is enumerated over all insertion permutations of <=4 of 8 keys. Complete within the "
            "alphabet; says nothing about keys/values outside it.",
            "trusted: refmodel/caseless.py (80 lines); pop() default None taken as documented signature", "3/C17"),
}
REASON_PENDING = "check under construction in this session; not claimed until it has been built, silenced on the unchanged tree and shown to detect a seeded change"
ALL = [f"C{i:02d}" for i in range(1, 21)]


def main():
    extra = {}
    try:
        extra = json.load(open("/verif/tools/manifest_checks.json"))
    except FileNotFoundError:
        pass
    checks = dict(CHECKS)
    checks.update({k: tuple(v) for k, v in extra.items()})
    m = {
        "version": 1,
        "setup_cmd": "true",
        "hooks": {"guard": "ICALENDAR_VERIF", "enable": "no source hooks are needed: checks import /repo/src directly "
                  "(ICALENDAR_VERIF=1 is exported by ./check but nothing in /repo reads it)",
                  "baseline_off_cmd": "/verif/tools/baseline.py /repo", "source_commits": [], "add_only": True},
        "engines": [{"name": "mc", "path": "/verif/mc", "serves_properties": sorted(checks),
                     "kind_free_text": "hand-written bounded-exhaustive / explicit-state explorer in Python that drives the "
                     "real library code and compares every step with small reference models (mc/refmodel)"}],
        "checks": [],
        "notes": "All checks: ./check <ID> --tier quick|thorough; VERIF_SEED only rotates additional exhaustive slices. "
                 "exit 0 held / exit 1 VIOLATION line / exit 2 harness error. Known findings: KNOWN_FINDINGS.txt.",
        "not_applicable": [],
    }
    for pid in sorted(checks):
        tech, text, note, ref = checks[pid]
        m["checks"].append({
            "property_id": pid,
            "quick_cmd": f"./check {pid} --tier quick",
            "thorough_cmd": f"./check {pid} --tier thorough",
            "evidence_file": f"/verif/evidence/{pid}.json",
            "replay_cmd_template": f"./check {pid} --replay {{path}}",
            "engine": "mc",
            "level_claimed": {"category": "model_checking", "text": text, "design_ref": f"DESIGN.md section {ref}"},
            "level_note": note,
            "technique": tech,
        })
    for pid in ALL:
        if pid not in checks:
            m["not_applicable"].append({"property_id": pid, "reason": REASON_PENDING})
    json.dump(m, open("/verif/MANIFEST.json", "w"), indent=1)
    code = ("import json,jsonschema;jsonschema.validate(json.load(open('/verif/MANIFEST.json')),"
            "json.load(open('/root/.vp/MANIFEST.schema.json')));print('MANIFEST valid')")
    sys.exit(subprocess.run(["python3-vt", "-c", code]).returncode)


main()
