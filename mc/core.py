"""Shared engine: sharded exhaustive enumeration, watchdog, result merging, findings, evidence, replay.

A check is a module `mc.checks.cNN` with `run(ctx)`.  It enumerates a finite space of cases and executes
each on the real library (`ctx.explore`), or drives its own explicit-state search and feeds results with
`ctx.absorb`.  Every executed case yields a `res` dict:

    state      hashable canonical observation reached (or `states`: a list of them)
    trans      number of real library operations executed (transitions)
    traces     number of model traces compared with the implementation (default 1)
    nontrivial bool - the case exercised the mechanism under test (rule is given by the check)
    outcome    short label; the number of distinct labels is printed (vacuity guard)
    fails      list of failure dicts {cls, case, expected, observed, known, size}

A failure with `known=<finding id>` is reported as KNOWN-FINDING iff that id is an `open:` entry of
/verif/KNOWN_FINDINGS.txt for this property; otherwise it is a VIOLATION.
"""
import hashlib
import itertools
import json
import multiprocessing as mp
import os
import signal
import sys
import time
import traceback
from collections import Counter

VERIF = os.path.dirname(os.path.dirname(os.path.abspath(__file__)))
FINDINGS_FILE = os.path.join(VERIF, "KNOWN_FINDINGS.txt")


class CaseTimeout(BaseException):
    """Raised by the watchdog inside a case (BaseException so that library `except Exception` cannot eat it)."""


class HarnessError(Exception):
    pass


def h64(obj):
    """Stable 64-bit digest of a canonical (repr-able) observation; independent of PYTHONHASHSEED."""
    if not isinstance(obj, (bytes, bytearray)):
        obj = repr(obj).encode("utf-8", "surrogatepass")
    return int.from_bytes(hashlib.blake2b(obj, digest_size=8).digest(), "big")


def jsonable(x, depth=0):
    if depth > 8:
        return repr(x)
    if isinstance(x, (str, int, float, bool)) or x is None:
        return x
    if isinstance(x, bytes):
        try:
            return {"bytes": x.decode("utf-8")}
        except UnicodeDecodeError:
            return {"bytes_repr": repr(x)}
    if isinstance(x, dict):
        return {str(k): jsonable(v, depth + 1) for k, v in x.items()}
    if isinstance(x, (list, tuple, set, frozenset)):
        return [jsonable(v, depth + 1) for v in x]
    return repr(x)


def _alarm(signum, frame):
    raise CaseTimeout()


def guarded(fn, case, limit):
    """Run fn(case) under the per-case watchdog."""
    signal.signal(signal.SIGALRM, _alarm)
    signal.setitimer(signal.ITIMER_REAL, limit)
    try:
        return fn(case)
    finally:
        signal.setitimer(signal.ITIMER_REAL, 0)


class Agg:
    """Mergeable aggregate of case results (one per worker, merged in the parent)."""

    MAXW = 3  # witnesses kept per failure class

    def __init__(self):
        self.evaluations = 0
        self.transitions = 0
        self.traces = 0
        self.states = set()
        self.nontrivial = set()
        self.outcomes = Counter()
        self.fails = {}  # key -> {count, witnesses:[fail], known}
        self.samples = []
        self.nt_samples = []
        self.digests = {}  # case index -> digest (first N cases: determinism re-check)
        self.timeouts = 0
        self.cpu = 0.0
        self.extra = Counter()
        self.bulk_states = 0      # chunked sweeps: distinct results counted inside the chunk (injectivity checked there)
        self.bulk_nontrivial = 0

    def add(self, idx, case, res, recheck_n=0):
        self.evaluations += res.get("n", 1)
        self.bulk_states += res.get("nstates", 0)
        self.bulk_nontrivial += res.get("nnontrivial", 0)
        self.transitions += res.get("trans", 1)
        self.traces += res.get("traces", 1)
        if "states" in res:
            for s in res["states"]:
                self.states.add(s if isinstance(s, int) else h64(s))
        if "state" in res:
            s = res["state"]
            self.states.add(s if isinstance(s, int) else h64(s))
        if res.get("nontrivial"):
            self.nontrivial.add(h64(("case", case)))
            if len(self.nt_samples) < 2:
                self.nt_samples.append(jsonable(case))
        self.outcomes[res.get("outcome", "ok")] += 1
        for k, v in res.get("extra", {}).items():
            self.extra[k] += v
        if len(self.samples) < 2:
            self.samples.append(jsonable(case))
        for f in res.get("fails", ()):
            self.add_fail(f)
        if idx is not None and idx < recheck_n:
            self.digests[idx] = h64((res.get("state"), res.get("states"), res.get("outcome"),
                                     [(f["cls"], repr(f.get("observed"))) for f in res.get("fails", ())]))

    def add_fail(self, f):
        key = ("K", f["known"]) if f.get("known") else ("V", f["cls"])
        slot = self.fails.setdefault(key, {"count": 0, "witnesses": []})
        slot["count"] += 1
        f.setdefault("size", len(repr(f.get("case"))))
        w = slot["witnesses"]
        w.append(f)
        w.sort(key=lambda x: x["size"])
        del w[self.MAXW:]

    def merge(self, o):
        self.evaluations += o.evaluations
        self.transitions += o.transitions
        self.traces += o.traces
        self.states |= o.states
        self.nontrivial |= o.nontrivial
        self.outcomes.update(o.outcomes)
        self.extra.update(o.extra)
        self.timeouts += o.timeouts
        self.cpu += o.cpu
        self.bulk_states += o.bulk_states
        self.bulk_nontrivial += o.bulk_nontrivial
        for k, slot in o.fails.items():
            mine = self.fails.setdefault(k, {"count": 0, "witnesses": []})
            mine["count"] += slot["count"]
            mine["witnesses"] = sorted(mine["witnesses"] + slot["witnesses"], key=lambda x: x["size"])[: self.MAXW]
        self.samples = (self.samples + o.samples)[:4]
        self.nt_samples = (self.nt_samples + o.nt_samples)[:4]
        for k, v in o.digests.items():
            if k in self.digests and self.digests[k] != v:
                raise HarnessError(f"non-deterministic result for case #{k}")
            self.digests[k] = v


_TASK = None  # (factory, fn, setup): set in the parent before forking, so closures need not be picklable


def _worker(args):
    (shard, nshards, limit, recheck_n, only_first) = args[:5]
    every, rest = args[5] if len(args) > 5 else (1, 0)
    factory, fn, setup = _TASK
    agg = Agg()
    t0 = time.process_time()
    try:
        if setup:
            setup()
        it = factory()
        if only_first is not None:
            it = itertools.islice(it, 0, only_first)
            idxs = itertools.count(0)
        else:
            it = itertools.islice(it, shard, None, nshards)
            idxs = itertools.count(shard, nshards)
        for idx, case in zip(idxs, it):
            if every > 1 and (idx // nshards) % every != rest:
                continue
            try:
                res = guarded(fn, case, limit)
            except (HarnessError, MemoryError, KeyboardInterrupt):
                raise
            except Exception as exc:  # noqa: BLE001
                # The case functions never raise on the unchanged tree (every library call is guarded where the property
                # allows an exception).  An exception escaping here therefore means the library returned something the
                # oracle cannot even inspect (wrong type, missing attribute): report it as a violation of this case.
                tb = traceback.extract_tb(exc.__traceback__)
                where = next((f"{os.path.basename(f.filename)}:{f.name}" for f in reversed(tb) if "/icalendar/" in f.filename), "harness")
                res = {"state": ("EXC", type(exc).__name__, where), "outcome": "EXCEPTION", "nontrivial": True,
                       "fails": [{"cls": f"unexpected-exception:{type(exc).__name__}@{where}", "case": case,
                                  "expected": "an observation the oracle can inspect",
                                  "observed": "".join(traceback.format_exception_only(type(exc), exc)).strip()[:300] + " | " +
                                              " <- ".join(f"{os.path.basename(f.filename)}:{f.lineno}" for f in tb[-4:])}]}
            except CaseTimeout:
                agg.timeouts += 1
                res = {"state": ("TIMEOUT",), "outcome": "TIMEOUT", "nontrivial": True,
                       "fails": [{"cls": "timeout", "case": case, "expected": f"terminates within {limit}s",
                                  "observed": "watchdog fired"}]}
            agg.add(idx, case, res, recheck_n)
    except BaseException:  # harness bug: report, never turn into a violation
        return ("ERR", traceback.format_exc())
    agg.cpu = time.process_time() - t0
    return ("OK", agg)


class Ctx:
    def __init__(self, prop, tier, seed, jobs):
        self.prop = prop
        self.tier = tier
        self.quick = tier == "quick"
        self.seed = seed
        self.jobs = jobs
        self.agg = Agg()
        self.t0 = time.time()
        self.rule = ""
        self.bounds = {}
        self.assumptions = []
        self.exhaustive = True
        self.notes = []
        self.parts = []  # per sub-space summaries
        self.limit = 5.0 if self.quick else 20.0
        self.recheck_n = 40
        self.divergences = []

    # ------------------------------------------------------------------ exploration
    def explore(self, name, factory, fn, setup=None, jobs=None, limit=None, recheck=True, custom=True):
        """Enumerate factory() completely, sharded over a fork pool; fn(case) -> res dict."""
        jobs = jobs or self.jobs
        limit = limit or self.limit
        t = time.time()
        global _TASK
        _TASK = (factory, fn, setup)
        tasks = [(i, jobs, limit, self.recheck_n, None) for i in range(jobs)]
        ctxm = mp.get_context("fork")
        part = Agg()
        with ctxm.Pool(jobs) as pool:
            for status, payload in pool.imap_unordered(_worker, tasks):
                if status != "OK":
                    raise HarnessError(f"worker crashed in {name}:\n{payload}")
                part.merge(payload)
        if recheck and part.evaluations:
            # determinism: the first N cases again, in a fresh process, must give identical observations
            with ctxm.Pool(1) as pool:
                status, payload = pool.apply(_worker, ((0, 1, limit, self.recheck_n, self.recheck_n),))
            if status != "OK":
                raise HarnessError(f"recheck worker crashed in {name}:\n{payload}")
            for k, v in payload.digests.items():
                if part.digests.get(k) != v:
                    # remembered, not raised: violations found in this run are still reported (exit 1); if there are none
                    # the run ends as a harness error (exit 2), never as "held"
                    self.divergences.append(f"{name}: case #{k} gave different observations in a fresh process")
                    break
        self.parts.append({"space": name, "cases": part.evaluations, "states": len(part.states) + part.bulk_states,
                           "transitions": part.transitions, "nontrivial": len(part.nontrivial) + part.bulk_nontrivial,
                           "outcomes": len(part.outcomes), "timeouts": part.timeouts,
                           "wall_s": round(time.time() - t, 2)})
        print(f"[{self.prop}] {name}: cases={part.evaluations} states={len(part.states) + part.bulk_states} "
              f"transitions={part.transitions} nontrivial={len(part.nontrivial) + part.bulk_nontrivial} "
              f"outcomes={len(part.outcomes)} fails={sum(s['count'] for s in part.fails.values())} "
              f"({time.time() - t:.1f}s)", flush=True)
        part.digests = {}
        self.agg.merge(part)
        if custom and not os.environ.get("VERIF_NO_CUSTOM"):
            self._explore_custom(name, factory, fn, setup, jobs, limit)
        return part

    def _explore_custom(self, name, factory, fn, setup, jobs, limit):
        """The same space once more under the 'registered subclasses' configuration (mc/custom.py): a seed-rotated slice
        (quick: every 8th case, thorough: every 4th)."""
        from mc import custom as _custom
        every = 8 if self.quick else 4
        t = time.time()

        def setup2():
            if setup:
                setup()
            _custom.install()
        global _TASK
        _TASK = (factory, fn, setup2)
        tasks = [(i, jobs, limit, 0, None, (every, self.seed % every)) for i in range(jobs)]
        ctxm = mp.get_context("fork")
        part = Agg()
        with ctxm.Pool(jobs) as pool:
            for status, payload in pool.imap_unordered(_worker, tasks):
                if status != "OK":
                    raise HarnessError(f"worker crashed in {name} [registered subclasses]:\n{payload}")
                part.merge(payload)
        # failures of this pass carry the configuration in their class and in the replay file
        renamed = {}
        for (kind, key), slot in part.fails.items():
            for w in slot["witnesses"]:
                w["config"] = "registered-subclasses"
                if kind == "V":
                    w["cls"] = w["cls"] + " [registered subclasses]"
            renamed[(kind, key if kind == "K" else key + " [registered subclasses]")] = slot
        part.fails = renamed
        self.parts.append({"space": name + " [registered subclasses]", "cases": part.evaluations, "states": len(part.states) + part.bulk_states,
                           "transitions": part.transitions, "nontrivial": len(part.nontrivial) + part.bulk_nontrivial,
                           "outcomes": len(part.outcomes), "timeouts": part.timeouts, "slice": f"every {every}th case",
                           "wall_s": round(time.time() - t, 2)})
        print(f"[{self.prop}] {name} [registered subclasses, every {every}th case]: cases={part.evaluations} "
              f"fails={sum(s['count'] for s in part.fails.values())} ({time.time() - t:.1f}s)", flush=True)
        part.digests = {}
        self.agg.merge(part)

    def absorb(self, name, case, res):
        """Feed one result produced by a check's own explicit-state search (in-process)."""
        self.agg.add(None, case, res)

    def part(self, name, **kw):
        self.parts.append(dict(space=name, **kw))
        print(f"[{self.prop}] {name}: " + " ".join(f"{k}={v}" for k, v in kw.items()), flush=True)

    # ------------------------------------------------------------------ reporting
    def finish(self):
        open_ids, fixed = load_findings(self.prop)
        a = self.agg
        violations = []
        known = []
        for (kind, key), slot in sorted(a.fails.items()):
            if kind == "K" and key in open_ids:
                known.append((key, slot))
            else:
                violations.append((key if kind == "V" else f"unlisted-finding:{key}", slot))
        lines = []
        for key, slot in known:
            w = slot["witnesses"][0]
            lines.append(f"KNOWN-FINDING: property={self.prop} {key} {open_ids[key]} "
                         f"({slot['count']} cases, shortest: {short(w.get('case'))})")
        replay_paths = []
        for key, slot in violations:
            w = slot["witnesses"][0]
            path = write_replay(self.prop, key, w, slot["count"])
            replay_paths.append(path)
            lines.append(f"VIOLATION property={self.prop} replay={path}")
            lines.append(f"  class={key} count={slot['count']} case={short(w.get('case'), 300)}")
            lines.append(f"  expected={short(w.get('expected'), 300)}")
            lines.append(f"  observed={short(w.get('observed'), 300)}")
        stale = sorted(set(open_ids) - {k for k, _ in known})
        wall = time.time() - self.t0
        samples = (a.nt_samples[:3] + a.samples[:2]) or ["<no case>"]
        ev = {
            "property_id": self.prop,
            "tier": self.tier,
            "seed": self.seed,
            "level": "model_checking",
            "coverage": {
                "states": len(a.states) + a.bulk_states,
                "transitions": a.transitions,
                "traces_validated_against_impl": a.traces,
                "samples": samples,
                "evaluations": a.evaluations,
                "distinct_nontrivial": len(a.nontrivial) + a.bulk_nontrivial,
                "rule": self.rule + (" CONFIGURATIONS: every space enumerated by the engine is run a second time with all classes of "
                                     "component_factory and types_factory replaced by user subclasses that override nothing (mc/custom.py) - "
                                     f"a seed-rotated slice, every {8 if self.quick else 4}th case; the checks keep building their trees from the plain classes, so "
                                     "plain and registered classes meet." if any("[registered subclasses]" in p_.get("space", "") for p_ in self.parts) else ""),
                "bounds": self.bounds,
                "exhaustive": bool(self.exhaustive),
                "distinct_outcomes": len(a.outcomes),
                "outcome_histogram": dict(a.outcomes.most_common(40)),
                "spaces": self.parts,
                "timeouts": a.timeouts,
                "known_findings_matched": {k: s["count"] for k, s in known},
                "known_findings_stale_in_this_tier": stale,
                "fixed_findings_rechecked": fixed,
                "extra_counters": dict(a.extra),
                "notes": self.notes,
                "repo": os.environ.get("VERIF_REPO", "/repo"),
            },
            "assumptions": self.assumptions,
            "wall_s": round(wall, 2),
            "violations": sum(s["count"] for _, s in violations),
        }
        os.makedirs(os.path.join(VERIF, "evidence"), exist_ok=True)
        evpath = os.environ.get("VERIF_EVIDENCE") or os.path.join(VERIF, "evidence", f"{self.prop}.json")
        with open(evpath, "w") as f:
            json.dump(ev, f, indent=1, sort_keys=True, ensure_ascii=True)
            f.write("\n")
        print(f"[{self.prop}] tier={self.tier} seed={self.seed} cases={a.evaluations} states={len(a.states) + a.bulk_states} "
              f"transitions={a.transitions} traces={a.traces} nontrivial={len(a.nontrivial) + a.bulk_nontrivial} "
              f"distinct_outcomes={len(a.outcomes)} exhaustive={self.exhaustive} wall={wall:.1f}s")
        for ln in lines:
            print(ln)
        sys.stdout.flush()
        if violations:
            return 1
        if self.divergences:
            sys.stderr.write("HARNESS-ERROR: " + "; ".join(self.divergences) + "\n")
            return 2
        return 0


def short(x, n=160):
    s = x if isinstance(x, str) else repr(x)
    return s if len(s) <= n else s[: n - 3] + "..."


def load_findings(prop):
    """-> ({open finding id: description}, [fixed lines]) for one property.  Never written at run time."""
    open_ids, fixed = {}, []
    if not os.path.exists(FINDINGS_FILE):
        return open_ids, fixed
    for raw in open(FINDINGS_FILE, encoding="utf-8"):
        line = raw.strip()
        if not line or line.startswith("#"):
            continue
        kind, _, rest = line.partition(":")
        rest = rest.strip()
        fields = dict(tok.split("=", 1) for tok in rest.split("::")[0].split() if "=" in tok)
        if fields.get("property") != prop:
            continue
        if kind == "open":
            open_ids[fields["id"]] = rest.split("::", 1)[1].strip() if "::" in rest else ""
        elif kind == "fixed":
            fixed.append(rest)
    return open_ids, fixed


def write_replay(prop, key, fail, count):
    d = os.path.join(VERIF, "replay", prop)
    os.makedirs(d, exist_ok=True)
    body = {"property": prop, "class": key, "count_in_run": count, "case": jsonable(fail.get("case")),
            "case_repr": repr(fail.get("case")), "expected": jsonable(fail.get("expected")),
            "observed": jsonable(fail.get("observed")), "note": fail.get("note", ""),
            "how_to_replay": f"cd /verif && ./check {prop} --replay <this file>",
            "unit_test": fail.get("unit_test", "")}
    if fail.get("config"):
        body["config"] = fail["config"]
        body["unit_test"] = body["unit_test"].replace("from mc.checks import", "from mc import custom; custom.install()\nfrom mc.checks import", 1)
        fail = dict(fail, unit_test=body["unit_test"])
    hid = hashlib.sha1(json.dumps(body, sort_keys=True).encode()).hexdigest()[:12]
    path = os.path.join(d, f"{hid}.json")
    with open(path, "w") as f:
        json.dump(body, f, indent=1, ensure_ascii=True)
    if fail.get("unit_test"):
        with open(os.path.join(d, f"{hid}.py"), "w") as f:
            f.write(fail["unit_test"])
    return path
