"""Canonical observation of a component tree: equality of snapshots is what "same tree" means in every check.

snapshot(c) = (NAME, ((PROP, (value-snapshot, ...)), ... sorted by PROP), (child snapshots in order))
value-snapshot = (class name, params as sorted ((NAME, str | (str, ...)), ...), to_ical text or "!Exc", python value)
Parameters are read BEFORE to_ical() is called (serialisation purity is C10's business, not the snapshot's).
"""
from datetime import date, datetime, time, timedelta


def tzkey(tz):
    if tz is None:
        return None
    for attr in ("key", "zone", "_tzid", "_s"):
        k = getattr(tz, attr, None)
        if isinstance(k, str):
            return k
    return type(tz).__name__


def pydt(x):
    """Hashable, provider-neutral rendering of date/time values (wall fields, zone key, utc offset)."""
    if isinstance(x, datetime):
        try:
            off = x.utcoffset()
        except Exception as e:  # noqa: BLE001
            off = f"!{type(e).__name__}"
        return ("datetime", x.year, x.month, x.day, x.hour, x.minute, x.second, x.microsecond, tzkey(x.tzinfo),
                off.total_seconds() if isinstance(off, timedelta) else off, getattr(x, "fold", 0) if False else 0)
    if isinstance(x, date):
        return ("date", x.year, x.month, x.day)
    if isinstance(x, time):
        return ("time", x.hour, x.minute, x.second, tzkey(x.tzinfo))
    if isinstance(x, timedelta):
        return ("timedelta", x.days, x.seconds, x.microseconds)
    if isinstance(x, (tuple, list)):
        return tuple(pydt(i) for i in x)
    return ("other", repr(x))


def pyval(v):
    """The Python value a typed property value denotes."""
    cname = type(v).__name__
    try:
        if cname in ("vDDDTypes", "vDatetime", "vDate", "vTime", "vPeriod"):
            return pydt(v.dt)
        if cname == "vDuration":
            return pydt(v.td)
        if cname == "vUTCOffset":
            return pydt(v.td)
        if cname == "vDDDLists":
            return tuple(pydt(d.dt) for d in v.dts)
        if cname == "vCategory":
            return tuple(str(c) for c in v.cats)
        if cname == "vRecur":
            return tuple((k, tuple(pyatom(x) for x in (val if isinstance(val, (list, tuple)) else [val])))
                         for k, val in v.items())
        if cname == "vGeo":
            return (v.latitude, v.longitude)
        if cname == "vBinary":
            return ("binary", v.obj)
        if cname == "vBoolean":
            return bool(v)
        if cname in ("vInt", "vMonth"):
            return int(v)
        if cname == "vFloat":
            return float(v)
        if isinstance(v, str):
            return str(v)
        if isinstance(v, bytes):
            return v
    except Exception as e:  # noqa: BLE001
        return f"!{type(e).__name__}"
    return ("raw", repr(v))


def pyatom(x):
    if isinstance(x, (datetime, date, time, timedelta)):
        return pydt(x)
    if isinstance(x, str):
        return str(x)
    if isinstance(x, (int, float)):
        return x
    return repr(x)


def params_of(v):
    p = getattr(v, "params", None)
    if p is None:
        return None
    out = []
    for k, val in p.items():
        if isinstance(val, (list, tuple)):
            val = tuple(str(x) for x in val)
        else:
            val = str(val)
        out.append((str(k), val))
    return tuple(sorted(out))


def value_snapshot(v):
    params = params_of(v)
    try:
        t = v.to_ical()
        if isinstance(t, bytes):
            t = t.decode("utf-8", "replace")
    except Exception as e:  # noqa: BLE001
        t = f"!{type(e).__name__}"
    return (type(v).__name__, params, t, pyval(v))


def snapshot(c, with_text=True):
    props = []
    for name in sorted(c.keys()):
        vals = c[name]
        if not isinstance(vals, list):
            vals = [vals]
        props.append((name, tuple(value_snapshot(v) for v in vals)))
    return (c.name, tuple(props), tuple(snapshot(s) for s in c.subcomponents))


def structure(c):
    """Names only: (NAME, ((PROP, (sorted param names per value, ...)), ...), (children))."""
    props = []
    for name in sorted(c.keys()):
        vals = c[name]
        if not isinstance(vals, list):
            vals = [vals]
        props.append((name, tuple(tuple(sorted(getattr(v, "params", {}).keys())) for v in vals)))
    return (c.name, tuple(props), tuple(structure(s) for s in c.subcomponents))


def all_errors(c):
    return tuple((x.name, len(x.errors)) for x in c.walk() if x.errors)
