"""C19 - recurrence rules round-trip all parts, FREQ first, same occurrences.

E-enum: FREQ (7) x every subset of <= j optional rule parts (16 parts, 2-5 caller values each) x key case x value
shape (scalar / list), built the ways a caller can build a vRecur (keywords, positional mapping, item assignment).
Oracle: encoded text matches the RECUR grammar with [RSCALE;]FREQ first; decoding yields every part with the reference's
typed values in the same order; re-encoding the decoded rule gives the same text; for rules dateutil can expand the first
12 occurrences of rrulestr(encoded) equal those of a dateutil rrule built DIRECTLY from the supplied parts.
E-hist (decode-histories): decode(text) -> one of 8 in-place mutations of the result -> 0/2 unrelated decodes ->
decode(text) again -> mutate -> decode: every decode equals the reference (decoding is a function of the text alone),
directly and through Event.from_ical.
"""
import enum
import itertools
import re
import signal
from datetime import date, datetime, timedelta, timezone

import dateutil.rrule as DR

import os

from mc import env  # noqa: F401
from icalendar.prop import vRecur, vMonth, vWeekday, vInt
from icalendar.cal import Event
from icalendar.timezone import tzp

_UNIQ = [0]
FREQS = ("SECONDLY", "MINUTELY", "HOURLY", "DAILY", "WEEKLY", "MONTHLY", "YEARLY")
UTC = timezone.utc
PARTS = {
    "UNTIL": (("date", 2025, 12, 31), ("naive", 2025, 12, 31, 23, 59, 59), ("utc", 2025, 12, 31, 23, 59, 59),
              ("utc", 999, 1, 2, 3, 4, 5), ("date", 33, 4, 3),  # years that need zero padding
              # a fraction of a second (datetime.max-style bounds): the text has one-second resolution, the bound lies
              # before the next whole second, on which an occurrence falls (DTSTART 09:00:00, DAILY / HOURLY ...)
              ("naive", 2024, 1, 5, 8, 59, 59, 600000), ("utc", 2024, 1, 5, 8, 59, 59, 999999), ("naive", 2024, 1, 5, 8, 59, 59, 400000)),
    "COUNT": (1, 10),
    "INTERVAL": (1, 2, 13),
    # incl. the ends of every RFC range (BYSECOND 0-60, BYMINUTE 0-59, BYHOUR 0-23, +-31, +-366, +-53)
    "BYSECOND": (0, (0, 30), 59, 60),
    "BYMINUTE": (0, (15, 45), 59, tuple(range(0, 60))),
    "BYHOUR": (0, (9, 17), 23),
    # the last entries mix the library's own typed values (what decoding yields) with plain ones in one list
    "BYDAY": ("MO", ("TU", "TH"), "+1MO", "-1SU", ("1FR", "-2SA"), (vWeekday("1MO"), "-1fr"), ("we", vWeekday("MO"))),
    "BYMONTHDAY": (1, -1, (1, 15, -1), (vInt(1), -1), (31, -31), tuple(range(1, 32)) + tuple(range(-31, 0))),
    "BYYEARDAY": (1, -1, (100, -100), (366, -366)),
    "BYWEEKNO": (1, -1, (20, 53), (-53, 53)),
    "BYMONTH": (1, (6, 12), "5L", (5, "5L"), ("7L", 7), "12L", ("10L", 3, "11L", 12), (vMonth(3), 9, "4L"),
                # long lists (a Chinese year: 12 months and a leap month), typed and plain
                (1, 2, 3, 4, vMonth("4L"), 5, 6, 7, 8, 9, 10, 11, 12), (1, 2, 3, 4, "4L", 5, 6, 7, 8, 9, 10, 11, 12)),
    "BYSETPOS": (1, -1, (1, -1), (366, -366)),
    "WKST": ("MO", "SU"),
    "RSCALE": ("GREGORIAN", "HEBREW"),
    "SKIP": ("OMIT", "FORWARD", "BACKWARD"),
    "X-PART": ("x",),
}
ORDER = ("RSCALE", "FREQ", "UNTIL", "COUNT", "INTERVAL", "BYSECOND", "BYMINUTE", "BYHOUR", "BYDAY", "BYWEEKDAY",
         "BYMONTHDAY", "BYYEARDAY", "BYWEEKNO", "BYMONTH", "BYSETPOS", "WKST", "SKIP")
RECUR_RX = re.compile(r"(?:RSCALE=[A-Za-z0-9-]+;)?FREQ=(?:SECONDLY|MINUTELY|HOURLY|DAILY|WEEKLY|MONTHLY|YEARLY)"
                      r"(?:;[A-Z][A-Z0-9-]*=[^;=]+)*\Z")
WD = {"MO": DR.MO, "TU": DR.TU, "WE": DR.WE, "TH": DR.TH, "FR": DR.FR, "SA": DR.SA, "SU": DR.SU}
DFREQ = {"SECONDLY": DR.SECONDLY, "MINUTELY": DR.MINUTELY, "HOURLY": DR.HOURLY, "DAILY": DR.DAILY,
         "WEEKLY": DR.WEEKLY, "MONTHLY": DR.MONTHLY, "YEARLY": DR.YEARLY}


def pyvalue(part, v):
    """Caller-side Python value for a menu entry."""
    if part == "UNTIL":
        if v[0] == "date":
            return date(*v[1:])
        if v[0] == "naive":
            return datetime(*v[1:])
        return datetime(*v[1:], tzinfo=UTC)
    return v


def as_list(v):
    return list(v) if isinstance(v, tuple) and not (v and isinstance(v[0], str) and v[0] in ("date", "naive", "utc")) else [v]


def ref_text(part, v):
    """RFC text of one caller value."""
    if part == "UNTIL":
        if v[0] == "date":
            return "%04d%02d%02d" % v[1:]
        return "%04d%02d%02dT%02d%02d%02d" % v[1:7] + ("Z" if v[0] == "utc" else "")
    return str(v).upper() if part in ("BYDAY", "WKST", "FREQ") else str(v)


def ref_typed(part, v):
    """The typed value decoding must yield (canonical atom)."""
    if part == "UNTIL":
        if v[0] == "date":
            return ("date",) + v[1:]
        return ("datetime",) + v[1:7] + (0.0 if v[0] == "utc" else None,)
    if part in ("COUNT", "INTERVAL", "BYSECOND", "BYMINUTE", "BYHOUR", "BYMONTHDAY", "BYYEARDAY", "BYWEEKNO", "BYSETPOS"):
        return int(v)
    if part == "BYMONTH":
        s = str(v)
        return (int(s.rstrip("L")), s.endswith("L"))
    return str(v).upper() if part in ("BYDAY", "WKST", "FREQ") else str(v)


def atom(part, x):
    """Canonical atom of a decoded value."""
    if isinstance(x, datetime):
        off = x.utcoffset()
        return ("datetime", x.year, x.month, x.day, x.hour, x.minute, x.second, off.total_seconds() if off is not None else None)
    if isinstance(x, date):
        return ("date", x.year, x.month, x.day)
    if isinstance(x, vMonth):
        return (int(x), bool(x.leap))
    if isinstance(x, enum.Enum):
        return str(x.value)
    if isinstance(x, bool):
        return x
    if isinstance(x, int):
        return int(x)
    return str(x)


def build(case):
    """-> (vRecur built the way the case says, [(PART, menu value)...] supplied)"""
    _, how, freq, parts, lower, as_lists = case
    supplied = [("FREQ", freq)] + [(p, PARTS[p][i]) for p, i in parts]
    kv = []
    for p, v in supplied:
        vals = [pyvalue(p, x) for x in as_list(v)] if p != "UNTIL" else [pyvalue(p, v)]
        if p == "FREQ" and lower:
            vals = [freq.lower()]
        val = vals if (as_lists or len(vals) > 1) else vals[0]
        kv.append((p.lower() if lower else p, val))
    if how == "kw":
        r = vRecur(**{k.replace("-", "_") if False else k: v for k, v in kv if "-" not in k},
                   )
        for k, v in kv:
            if "-" in k:
                r[k] = v
    elif how == "map":
        r = vRecur(dict(kv))
    elif how == "setitem":
        r = vRecur()
        for k, v in reversed(kv):
            r[k] = v
    elif how == "setitem-bytes":
        # the part value classes accept bytes: a bare bytes scalar assigned to a part is ONE value, not a list of octets
        r = vRecur()
        for k, v in reversed(kv):
            # only where the part's value class has a bytes constructor (integers, FREQ, weekdays)
            if type(v) is int or (type(v) is str and k.upper() in ("FREQ", "BYDAY", "WKST")):
                v = str(v).encode("utf-8")
            r[k] = v
    else:  # through a component: Event.add('rrule', mapping)
        ev = Event()
        ev.add("rrule", dict(kv))
        r = ev["RRULE"]
    return r, supplied


def expandable(supplied):
    names = {p for p, _ in supplied}
    if names & {"RSCALE", "SKIP", "X-PART"}:
        return False
    for p, v in supplied:
        if p == "BYMONTH" and "L" in str(v):
            return False
    if "COUNT" in names and "UNTIL" in names:
        return False
    for p, v in supplied:
        # values at the far end of a range select nothing in most periods: dateutil then searches (nearly) for ever
        if p in ("BYSETPOS", "BYWEEKNO", "BYYEARDAY") and any(abs(int(x)) > 50 for x in as_list(v)):
            return False
    freq = dict(supplied)["FREQ"]
    if freq in ("SECONDLY", "MINUTELY", "HOURLY") and names & {"BYMONTH", "BYYEARDAY", "BYWEEKNO", "BYMONTHDAY", "BYDAY", "BYSETPOS"}:
        return False  # dateutil walks sub-daily steps one by one: cost only, not semantics
    if freq in ("SECONDLY", "MINUTELY") and names & {"BYHOUR", "BYMINUTE"} and freq == "SECONDLY":
        return False
    # two date-restricting BY parts can be jointly unsatisfiable (dateutil then walks to year 9999): only the pairs
    # known to be always satisfiable are expanded; a long INTERVAL with such a part is slow for the same reason
    d = names & {"BYDAY", "BYMONTHDAY", "BYYEARDAY", "BYWEEKNO", "BYMONTH"}
    if len(d) >= 2 and d not in ({"BYMONTH", "BYDAY"}, {"BYMONTH", "BYMONTHDAY"}):
        return False
    if d and dict(supplied).get("INTERVAL", 1) > 2:
        return False
    return True


def ref_rrule(supplied, dtstart):
    kw = {}
    for p, v in supplied:
        vals = as_list(v) if p != "UNTIL" else [v]
        if p == "FREQ":
            freq = DFREQ[v]
        elif p == "UNTIL":
            u = pyvalue(p, v)
            if not isinstance(u, datetime):
                u = datetime(u.year, u.month, u.day)
                if dtstart.tzinfo is not None:
                    u = u.replace(tzinfo=dtstart.tzinfo)
            kw["until"] = u
        elif p == "COUNT":
            kw["count"] = v
        elif p == "INTERVAL":
            kw["interval"] = v
        elif p == "BYDAY":
            out = []
            for x in vals:
                m = re.match(r"([+-]?\d+)?([A-Z]{2})$", str(x).upper())
                out.append(WD[m.group(2)](int(m.group(1))) if m.group(1) else WD[m.group(2)])
            kw["byweekday"] = out
        elif p == "WKST":
            kw["wkst"] = WD[v]
        else:
            kw[{"BYSECOND": "bysecond", "BYMINUTE": "byminute", "BYHOUR": "byhour", "BYMONTHDAY": "bymonthday",
                "BYYEARDAY": "byyearday", "BYWEEKNO": "byweekno", "BYMONTH": "bymonth", "BYSETPOS": "bysetpos"}[p]] = [int(x) for x in vals]
    return DR.rrule(freq, dtstart=dtstart, **kw)


class _Slow(BaseException):
    pass


def _slow(signum, frame):
    raise _Slow()


def occurrences(make, budget):
    """First 12 occurrences, or ("slow",) when dateutil needs more than `budget` seconds (impossible BY
    combinations make it walk to year 9999): cost of the expander, not a verdict on the library."""
    old = signal.signal(signal.SIGVTALRM, _slow)
    signal.setitimer(signal.ITIMER_VIRTUAL, budget)
    try:
        r = make()
        return ("ok", tuple(itertools.islice(r, 12)))
    except (ValueError, TypeError) as e:
        return ("exc", type(e).__name__)
    except _Slow:
        return ("slow",)
    finally:
        signal.setitimer(signal.ITIMER_VIRTUAL, 0)
        signal.signal(signal.SIGVTALRM, old)


def fail(cls, case, expected, observed):
    return {"cls": cls, "case": case, "expected": expected, "observed": observed, "size": len(repr(case)),
            "unit_test": ("import sys; sys.path[:0] = ['/verif', '/repo/src']\nfrom mc.checks import c19\n"
                          f"r = c19.replay({case!r})\nfor f in r['fails']: print(f['cls'], f['expected'], f['observed'])\n")}


def run_case(case):
    fails = []
    try:
        r, supplied = build(case)
    except Exception as e:  # noqa: BLE001
        return {"state": ("build-exc", type(e).__name__), "trans": 1, "nontrivial": True, "outcome": "build-raises",
                "fails": [fail("build-raises", case, "a vRecur", f"{type(e).__name__}: {e}")]}
    try:
        text = r.to_ical().decode("utf-8")
    except Exception as e:  # noqa: BLE001
        return {"state": ("enc-exc", type(e).__name__), "trans": 2, "nontrivial": True, "outcome": "encode-raises",
                "fails": [fail("encode-raises", case, "RECUR text", f"{type(e).__name__}: {e}")]}
    # expected text: parts in RFC order (others alphabetically after), values in caller order
    sup = dict(supplied)
    keys = [k for k in ORDER if k in sup] + sorted(k for k in sup if k not in ORDER)
    want_text = ";".join(f"{k}=" + ",".join(ref_text(k, x) for x in (as_list(sup[k]) if k != "UNTIL" else [sup[k]])) for k in keys)
    if not RECUR_RX.match(text):
        fails.append(fail("encoded-not-RECUR-grammar", case, "recur-rule-part *(; recur-rule-part), FREQ first", text))
    # the rule inside a component written with and without property sorting, and as a single content line: the same text -
    # `sorted=False` keeps the order of PROPERTIES, a rule's parts have one order (FREQ first)
    try:
        ev_ = Event()
        ev_["RRULE"] = r
        ev_.add("uid", "r")
        for srt in (True, False):
            lines_ = [ln for ln in ev_.to_ical(sorted=srt).decode("utf-8").replace("\r\n ", "").split("\r\n") if ln.startswith("RRULE:")]
            if lines_ != ["RRULE:" + text]:
                fails.append(fail(f"rule-inside-component-differs:sorted={srt}", case, "RRULE:" + text, lines_))
                break
    except Exception as e:  # noqa: BLE001
        fails.append(fail("rule-inside-component-raises", case, "RRULE:" + text, f"{type(e).__name__}: {e}"))
    enc_parts = [p.split("=", 1) for p in text.split(";")]
    enc_keys = [p[0] for p in enc_parts]
    if sorted(enc_keys) != sorted(keys) or any(len(p) != 2 for p in enc_parts):
        fails.append(fail("encoded-parts-differ", case, want_text, text))
    elif dict((k, v) for k, v in enc_parts) != dict(p.split("=", 1) for p in want_text.split(";")):
        fails.append(fail("encoded-values-differ", case, want_text, text))
    # decode
    outcome = "ok"
    try:
        back = vRecur.from_ical(text)
        got = [(k, [atom(k, x) for x in (v if isinstance(v, (list, tuple)) else [v])]) for k, v in back.items()]
        want = [(k, [ref_typed(k, x) for x in (as_list(sup[k]) if k != "UNTIL" else [sup[k]])]) for k in enc_keys if k in sup]
        if got != want:
            fails.append(fail("decoded-parts-differ", case, want, got))
        text2 = back.to_ical().decode("utf-8")
        if text2 != text:
            fails.append(fail("re-encode-differs", case, text, text2))
    except Exception as e:  # noqa: BLE001
        fails.append(fail("decode-raises", case, "vRecur", f"{type(e).__name__}: {e}"))
    # occurrences
    if expandable(supplied):
        utc = sup.get("UNTIL", ("x",))[0] == "utc"
        starts = (datetime(2024, 1, 1, 9, 0, 0), datetime(2023, 12, 31, 23, 59, 59))
        for dtstart in (starts if len(supplied) <= 2 else starts[:1]):
            if utc:
                dtstart = dtstart.replace(tzinfo=UTC)
            want_occ = occurrences(lambda: ref_rrule(supplied, dtstart), 4.0)
            if want_occ == ("slow",):
                break
            got_occ = occurrences(lambda: DR.rrulestr(text, dtstart=dtstart), 4.0)
            if want_occ != got_occ and not (got_occ == ("slow",) and text == want_text):
                fails.append(fail("occurrences-differ", case, want_occ, got_occ))
                break
        outcome = {"ok": "ok+expanded", "exc": "ok+both-reject", "slow": "ok+expander-too-slow"}[want_occ[0]]
    return {"state": ("recur", text), "trans": 4, "nontrivial": len(supplied) > 1, "outcome": outcome if not fails else "FAIL",
            "fails": fails}


MUTATIONS = ("append", "pop", "reverse", "setitem0", "clear", "extend-slice", "replace-key", "del-key")


def mutate(rule, how):
    """In-place changes a caller may make to a decoded rule; the next decode of the same text must not see them."""
    for k in list(rule.keys()):
        v = rule[k]
        if how == "replace-key":
            rule[k] = ["X"]
        elif how == "del-key":
            if k != "FREQ":
                del rule[k]
        elif not isinstance(v, list):
            continue
        elif how == "append":
            v.append(v[0] if v else 1)
        elif how == "pop":
            if v:
                v.pop()
        elif how == "reverse":
            v.reverse()
            v.append(v[0])
        elif how == "setitem0":
            if v:
                v[0] = 7 if isinstance(v[0], int) and not isinstance(v[0], bool) and not isinstance(v[0], vMonth) else "SU"
        elif how == "clear":
            v.clear()
        elif how == "extend-slice":
            v[0:1] = [9, 9]


def decoded_atoms(rule):
    return [(k, [atom(k, x) for x in (v if isinstance(v, (list, tuple)) else [v])]) for k, v in rule.items()]


def run_history(case):
    """('h', path, freq, parts, mutation, n_between): decode text; mutate the result in place; decode the same text
    again (after n_between decodes of other texts): the decoded parts must equal the reference both times."""
    _, path, freq, parts, mutation, between = case
    fails = []
    supplied = [("FREQ", freq)] + [(p, PARTS[p][i]) for p, i in parts]
    sup = dict(supplied)
    keys = [k for k in ORDER if k in sup] + sorted(k for k in sup if k not in ORDER)
    text = ";".join(f"{k}=" + ",".join(ref_text(k, x) for x in (as_list(sup[k]) if k != "UNTIL" else [sup[k]])) for k in keys)
    want = [(k, [ref_typed(k, x) for x in (as_list(sup[k]) if k != "UNTIL" else [sup[k]])]) for k in keys]

    def decode():
        if path == "codec":
            return vRecur.from_ical(text)
        if path.startswith("observance"):
            # the rule of an observance of a VTIMEZONE the provider has never seen: reading the calendar also converts
            # the definition into a time zone object - the rule held by the parsed tree is still the rule of the text
            from icalendar.cal import Calendar
            _UNIQ[0] += 1
            tzid = f"Custom/C19-{os.getpid()}-{_UNIQ[0]}"
            env.use_provider(path.split(":")[1])
            cal = Calendar.from_ical("\r\n".join([
                "BEGIN:VCALENDAR", "BEGIN:VTIMEZONE", f"TZID:{tzid}", "BEGIN:DAYLIGHT", "DTSTART:19700329T020000", "TZOFFSETFROM:+0100",
                "TZOFFSETTO:+0200", "TZNAME:XDT", f"RRULE:{text}", "END:DAYLIGHT", "BEGIN:STANDARD", "DTSTART:19701025T030000",
                "TZOFFSETFROM:+0200", "TZOFFSETTO:+0100", "TZNAME:XST", f"RRULE:{text}", "END:STANDARD", "END:VTIMEZONE",
                "BEGIN:VEVENT", f"DTSTART;TZID={tzid}:20240601T100000", "END:VEVENT", "END:VCALENDAR", ""]))
            return cal.walk("STANDARD")[0]["RRULE"]
        ev = Event.from_ical(f"BEGIN:VEVENT\r\nUID:h\r\nRRULE:{text}\r\nEND:VEVENT\r\n")
        return ev["RRULE"]

    trans = 0
    seen = []
    try:
        first = decode()
        trans += 1
        seen.append(decoded_atoms(first))
        if seen[0] != want:
            fails.append(fail("history:first-decode-differs", case, want, seen[0]))
        mutate(first, mutation)
        trans += 1
        for i in range(between):
            vRecur.from_ical(f"FREQ=DAILY;COUNT={i + 2}")
            trans += 1
        second = decode()
        trans += 1
        got = decoded_atoms(second)
        if got != want:
            fails.append(fail("history:decode-after-mutating-an-earlier-result-differs", case, want, got))
        t2 = second.to_ical().decode("utf-8")
        if t2 != text:
            fails.append(fail("history:re-encode-after-mutation-differs", case, text, t2))
        # and the other direction: mutating the second result does not reach a third
        mutate(second, mutation)
        third = decode()
        trans += 2
        got3 = decoded_atoms(third)
        if got3 != want and got == want:
            fails.append(fail("history:third-decode-differs", case, want, got3))
    except ValueError as e:
        if not path.startswith("observance"):
            fails.append(fail("history:raises", case, "decoded rules", f"{type(e).__name__}: {e}"))
        else:  # a definition the provider cannot convert is refused as a whole (C04/C12 judge that)
            seen.append("definition-refused")
    except Exception as e:  # noqa: BLE001
        fails.append(fail("history:raises", case, "decoded rules", f"{type(e).__name__}: {e}"))
    return {"state": ("hist", path, text, mutation, repr(seen)), "trans": trans, "nontrivial": len(supplied) > 1,
            "outcome": ("hist-definition-refused" if "definition-refused" in seen else "hist-ok") if not fails else "hist-FAIL", "fails": fails}


def emit_rules(first):
    """Fresh-process probe: use one of the key-sorting classes FIRST, then encode every rule with <= 1 optional part and
    print a digest: the encoded rule texts must not depend on which class sorted its keys first in the process."""
    import hashlib
    from icalendar.caselessdict import CaselessDict
    from icalendar.cal import Component, Calendar
    from icalendar.parser import Parameters
    if first == "caselessdict":
        CaselessDict(b=1, a=2).sorted_keys()
        CaselessDict(b=1, a=2).sorted_items()
    elif first == "component":
        c = Component()
        c.name = "X-GEN"
        c.add("z", "1")
        c.to_ical()
    elif first == "parameters":
        Parameters({"x-b": "1", "a": "2"}).to_ical()
    elif first == "calendar":
        c = Calendar()
        c.add("version", "2.0")
        c.to_ical()
    h = hashlib.sha256()
    names = list(PARTS)
    n = 0
    for freq in FREQS:
        for combo in [()] + [(p,) for p in names]:
            for idx in itertools.product(*[range(len(PARTS[p])) for p in combo]):
                try:
                    r, _ = build(("r", "kw", freq, tuple(zip(combo, idx)), False, False))
                    h.update(r.to_ical() + b"\n")
                except Exception as e:  # noqa: BLE001 - judged by the rules space; here only "the same in every process"
                    h.update(type(e).__name__.encode() + b"\n")
                n += 1
    print(h.hexdigest(), n)


def replay(case):
    if case[0] == "first-class":
        return {"fails": [], "note": "run: python -c 'from mc.checks import c19; c19.emit_rules(<class>)' in fresh processes and compare"}
    return run_history(case) if case[0] == "h" else run_case(case)


def run(ctx):
    j = 2 if ctx.quick else 3
    ctx.rule = (f"E-enum: 7 FREQ x every subset of <={j} of 16 optional rule parts x every menu value (2-5 per part: single, "
                "multiple, negative, ordinal weekdays, leap month, RSCALE/SKIP, X-part, UNTIL as date/floating/UTC) x key "
                "case {upper, lower} x value shape {scalar, list} x construction {keywords, positional mapping, item "
                "assignment in reverse order, Event.add, item assignment of bytes scalars}. E-hist: decode / mutate-in-place (8 mutations) / decode histories over every rule with <=1 (thorough 2) optional parts, codec and component path; the same for YEARLY rules (<=2 of 7 parts) standing in both observances of a VTIMEZONE with a never-seen TZID, under both providers (reading converts the definition on the side). non-trivial = at least one optional part.")
    ctx.bounds = {"max_optional_parts": j, "parts": {k: len(v) for k, v in PARTS.items()}}
    ctx.assumptions += ["COUNT together with UNTIL, and sub-daily FREQ with date-restricting BY parts, are round-tripped but "
                        "not expanded (dateutil cost / RFC forbids the former)",
                        "zoned UNTIL excluded (statement lists date, floating, UTC)"]
    names = list(PARTS)

    def gen():
        hows = ("kw", "map", "setitem", "add", "setitem-bytes")
        i = 0
        for n in range(0, j + 1):
            for combo in itertools.combinations(names, n):
                for idx in itertools.product(*[range(len(PARTS[p])) for p in combo]):
                    parts = tuple(zip(combo, idx))
                    for freq in FREQS:
                        for lower in (False, True):
                            for as_lists in (False, True):
                                i += 1
                                # every construction path for <=1 part; rotate it for larger subsets
                                for how in (hows if n <= 1 else (hows[i % 5],)):
                                    yield ("r", how, freq, parts, lower, as_lists)

    ctx.explore("rules", gen, run_case)

    def gen_hist():
        jh = 1 if ctx.quick else 2
        for n in range(0, jh + 1):
            for combo in itertools.combinations(names, n):
                for idx in itertools.product(*[range(len(PARTS[p])) for p in combo]):
                    parts = tuple(zip(combo, idx))
                    for freq in (FREQS if n <= 1 else ("WEEKLY",)):
                        for path in ("codec", "component"):
                            for m in MUTATIONS:
                                for between in ((0, 2) if n <= 1 else (0,)):
                                    yield ("h", path, freq, parts, m, between)

    ctx.explore("decode-histories", gen_hist, run_history)

    def gen_obs():
        safe = ("UNTIL", "COUNT", "INTERVAL", "BYDAY", "BYMONTHDAY", "BYMONTH", "WKST")
        for n in range(0, 3):
            for combo in itertools.combinations(safe, n):
                if "UNTIL" in combo and "COUNT" in combo:
                    continue
                for idx in itertools.product(*[range(len(PARTS[p])) for p in combo]):
                    parts = tuple(zip(combo, idx))
                    for provider in env.PROVIDERS:
                        for m in (MUTATIONS[:2] if n == 2 else MUTATIONS):
                            yield ("h", f"observance:{provider}", "YEARLY", parts, m, 0)

    ctx.explore("rules of an observance in a never-seen VTIMEZONE", gen_obs, run_history)
    # process history: which key-sorting class is used first in a fresh process must not matter
    import os
    import subprocess
    import sys
    digests = {}
    for first in ("recur", "caselessdict", "component", "parameters", "calendar"):
        p = subprocess.run([sys.executable, "-c", f"from mc.checks import c19; c19.emit_rules({first!r})"],
                           cwd=os.path.dirname(os.path.dirname(os.path.dirname(os.path.abspath(__file__)))),
                           env=dict(os.environ, PYTHONHASHSEED="0"), capture_output=True, text=True)
        if p.returncode != 0:
            from mc.core import HarnessError
            raise HarnessError(f"probe process failed: {p.stderr[-400:]}")
        digests[first] = p.stdout.split()[0]
        nrules = int(p.stdout.split()[1])
    distinct = sorted(set(digests.values()))
    ctx.part("first-class-used", processes=len(digests), rules_each=nrules, distinct_digests=len(distinct))
    res = {"n": len(digests) * nrules, "state": ("first-class", tuple(distinct)), "trans": len(digests) * nrules, "traces": len(digests),
           "nontrivial": True, "outcome": "first-class-ok" if len(distinct) == 1 else "FAIL", "fails": []}
    if len(distinct) != 1:
        res["fails"].append(fail("encoded-rules-depend-on-which-class-sorted-first", ("first-class", tuple(sorted(digests.items()))),
                                 "one digest", digests))
    ctx.absorb("first-class-used", ("first-class", len(digests)), res)
