"""C16 - start/end/duration of events, todos (and journals) obey the RFC after any edit history.

E-hist: explicit-state search on real Event / Todo / Journal objects.  Operations: the start, end, DTSTART,
DTEND|DUE and DURATION setters (values: two dates, two floating, two UTC, two zoned date-times around a DST change, one dateutil-zoned and one fixed-offset date-time, None, one wrongly typed
argument), the deleters, and add() of the same names.  A state is the canonical content of the three stored
properties; the object is rebuilt by replaying the history.
  * setter/deleter-only histories: searched to FIXPOINT (complete reachability), invariant "at most one of
    end-property and DURATION" in every state;
  * histories that also use add(): depth-bounded.
In every state `start`, `end`, `duration` are evaluated and compared with the reference model
(refmodel below): value, or exactly the documented error class the model assigns.  A second, enumerative part parses
every combination of <=2 DTSTART / <=2 end / <=2 DURATION lines (typed menus incl. wrongly typed values) under both
providers and applies the same oracle.
"""
import collections
import itertools
from datetime import date, datetime, timedelta, timezone
from zoneinfo import ZoneInfo

from mc import env
from mc.core import h64

from icalendar.cal import Event, Todo, Journal, InvalidCalendar, IncompleteComponent, Calendar

BERLIN = ZoneInfo("Europe/Berlin")
from mc.userkinds import Stamp, Day  # noqa: E402

VALS = {
    "d1": date(2024, 5, 1), "d2": date(2024, 5, 3),
    "n1": datetime(2024, 5, 1, 10, 0), "n2": datetime(2024, 5, 2, 12, 30),
    "u1": datetime(2024, 5, 1, 10, 0, tzinfo=timezone.utc), "u2": datetime(2024, 5, 2, 12, 30, tzinfo=timezone.utc),
    # zoned values around the 2024-03-31 02:00 DST change: z1 + P1D / P1DT2H crosses it (wall-clock arithmetic, RFC 5545 3.3.6)
    "z1": datetime(2024, 3, 30, 10, 0, tzinfo=BERLIN), "z2": datetime(2024, 3, 31, 12, 30, tzinfo=BERLIN),
    # a third tzinfo implementation (dateutil, wall-clock arithmetic) and a fixed offset without zone id
    "du": datetime(2024, 10, 26, 10, 0, tzinfo=__import__("dateutil.tz").tz.gettz("Europe/Berlin")),
    "fx": datetime(2024, 3, 30, 10, 0, tzinfo=timezone(timedelta(hours=5, minutes=30))),
    # instances of user subclasses of date / datetime (mc/userkinds.py): same kinds as the plain values
    # the SECOND occurrence of a repeated wall time (fold=1): a start without end or duration ends at that very value
    "zf": datetime(2024, 10, 27, 2, 30, fold=1, tzinfo=BERLIN),
    "sd": Day(2024, 5, 2), "sn": Stamp(2024, 5, 1, 11, 0), "su": Stamp(2024, 5, 2, 9, 0, tzinfo=timezone.utc),
}
DURS = {"P0": timedelta(0), "P1D": timedelta(days=1), "PT1H": timedelta(hours=1), "P1DT2H": timedelta(days=1, hours=2)}
WRONG = {"str": "20240501", "int": 5}
CLASSES = {"VEVENT": (Event, "DTEND"), "VTODO": (Todo, "DUE"), "VJOURNAL": (Journal, None)}


def kind(v):
    if isinstance(v, datetime):
        return "aware" if v.tzinfo is not None else "naive"
    if isinstance(v, date):
        return "date"
    return "invalid"


# ------------------------------------------------------------------ reference model
class Model:
    """Stored lists S, E, D of python values + the statement's evaluation rules."""

    def __init__(self, has_end=True):
        self.S, self.E, self.D = [], [], []
        self.has_end = has_end

    def key(self):
        return (tuple(map(repr, self.S)), tuple(map(repr, self.E)), tuple(map(repr, self.D)))

    def apply(self, op):
        """-> 'TypeError' | None ; mutates the model like the documented setters."""
        name = op[0]
        if name in ("set_start", "set_DTSTART"):
            v = arg(op[1])
            if v is None:
                self.S = []
            elif kind(v) == "invalid":
                return "TypeError"
            else:
                self.S = [v]
        elif name in ("set_end", "set_END") and not self.has_end:
            return self.apply(("set_start", op[1]))  # a journal's end IS its start (documented alias)
        elif name in ("set_end", "set_END"):
            v = arg(op[1])
            if v is None:
                self.E = []
            elif kind(v) == "invalid":
                return "TypeError"
            else:
                self.E = [v]
                self.D = []
        elif name == "set_DURATION":
            v = arg(op[1])
            if v is None:
                self.D = []
            elif not isinstance(v, timedelta):
                return "TypeError"
            else:
                self.D = [v]
                self.E = []
        elif name == "del_DTSTART":
            self.S = []
        elif name == "del_END":
            self.E = []
        elif name == "del_DURATION":
            self.D = []
        elif name == "add_DTSTART":
            self.S = self.S + [arg(op[1])]
        elif name == "add_END":
            self.E = self.E + [arg(op[1])]
        elif name == "add_DURATION":
            self.D = self.D + [arg(op[1])]
        else:
            raise AssertionError(op)
        return None

    def forbidden(self):
        S, E, D = self.S, self.E, self.D
        if len(S) > 1 or len(E) > 1 or len(D) > 1:
            return "multiple"
        if S and kind(S[0]) == "invalid" or E and kind(E[0]) == "invalid" or D and not isinstance(D[0], timedelta):
            return "wrong-type"
        if E and D:
            return "both-end-and-duration"
        if S and E:
            ks, ke = kind(S[0]), kind(E[0])
            if (ks == "date") != (ke == "date"):
                return "date/date-time mismatch"
            if {ks, ke} == {"naive", "aware"}:
                return "floating/zoned mismatch"
        if S and D and kind(S[0]) == "date" and D[0].seconds != 0:
            return "time-valued DURATION on a date start"
        return None

    def expect(self):
        """-> {attr: set of acceptable outcomes}; an outcome is ('value', v) | 'InvalidCalendar' | 'IncompleteComponent'"""
        S, E, D = self.S, self.E, self.D
        fb = self.forbidden()
        out = {}
        if not self.has_end:
            if len(S) > 1 or (S and kind(S[0]) == "invalid"):
                return {a: {"InvalidCalendar"} for a in ("start", "end")} | {"duration": {("value", timedelta(0))}}
            if not S:
                return {"start": {"IncompleteComponent"}, "end": {"IncompleteComponent"}, "duration": {("value", timedelta(0))}}
            return {"start": {("value", S[0])}, "end": {("value", S[0])}, "duration": {("value", timedelta(0))}}
        if fb:
            inc = {"IncompleteComponent"} if not S else set()
            return {a: {"InvalidCalendar"} | inc for a in ("start", "end", "duration")}
        start = ("value", S[0]) if S else "IncompleteComponent"
        if E:
            end = ("value", E[0])
        elif D:
            end = ("value", S[0] + D[0]) if S else "IncompleteComponent"
        else:
            end = ("value", S[0] + timedelta(days=1) if kind(S[0]) == "date" else S[0]) if S else "IncompleteComponent"
        if S and end != "IncompleteComponent":
            duration = ("value", end[1] - S[0])
        else:
            duration = "IncompleteComponent"
        out["start"], out["end"], out["duration"] = {start}, {end}, {duration}
        return out


def arg(token):
    if token is None:
        return None
    if token in VALS:
        return VALS[token]
    if token in DURS:
        return DURS[token]
    return WRONG[token]


# ------------------------------------------------------------------ real side
def apply_real(c, end_name, op):
    name, a = op[0], (arg(op[1]) if len(op) > 1 else None)
    if name == "set_start":
        c.start = a
    elif name == "set_DTSTART":
        c.DTSTART = a
    elif name == "set_end":
        c.end = a
    elif name == "set_END":
        setattr(c, end_name, a)
    elif name == "set_DURATION":
        c.DURATION = a
    elif name == "del_DTSTART":
        del c.DTSTART
    elif name == "del_END":
        delattr(c, end_name)
    elif name == "del_DURATION":
        del c.DURATION
    elif name == "add_DTSTART":
        c.add("dtstart", a)
    elif name == "add_END":
        c.add(end_name.lower(), a)
    elif name == "add_DURATION":
        c.add("duration", a)
    else:
        raise AssertionError(op)


def stored(c, end_name):
    """Python values actually stored under the three names."""
    out = []
    for name in ("DTSTART", end_name, "DURATION"):
        if name is None or name not in c:
            out.append(())
            continue
        v = c[name]
        vs = v if isinstance(v, list) else [v]
        out.append(tuple(repr(getattr(x, "dt", getattr(x, "td", x))) for x in vs))
    return tuple(out)


def observe(c, attr):
    try:
        return ("value", getattr(c, attr))
    except InvalidCalendar:
        return "InvalidCalendar"
    except IncompleteComponent:
        return "IncompleteComponent"
    except Exception as e:  # noqa: BLE001
        return f"raised {type(e).__name__}: {e}"


def same(obs, want):
    if isinstance(obs, tuple) and isinstance(want, tuple):
        a, b = obs[1], want[1]
        if type(a) is not type(b) and not (isinstance(a, datetime) and isinstance(b, datetime)):
            return False
        try:
            if isinstance(a, datetime) and a.tzinfo is not None and b.tzinfo is not None and a.utcoffset() != b.utcoffset():
                return False  # same wall clock, other occurrence of a repeated hour: another instant (== ignores fold)
            return a == b and (not isinstance(a, datetime) or (a.tzinfo is None) == (b.tzinfo is None))
        except TypeError:
            return False
    return obs == want


def check_state(cname, c, m, fails, case):
    """Evaluate start/end/duration in the current state and compare with the model; returns outcome labels."""
    exp = m.expect()
    labels = []
    vals = {}
    for attr in ("start", "end", "duration"):
        obs = observe(c, attr)
        vals[attr] = obs
        if attr == "start" and isinstance(obs, tuple) and m.D and not m.E and not m.forbidden() and m.S and kind(m.S[0]) == "aware" \
                and any(same(obs, w) for w in exp["start"]):
            # "start + DURATION" is the addition of the tzinfo the library holds (C14's assumption as well): a pytz
            # value adds elapsed time, a zoneinfo value adds wall-clock time
            try:
                exp["end"] = exp["end"] | {("value", obs[1] + m.D[0])}
                exp["duration"] = exp["duration"] | {("value", m.D[0])}
            except TypeError:
                pass
        if attr == "duration" and m.S and kind(m.S[0]) == "aware" and not m.forbidden() \
                and all(isinstance(vals[a], tuple) and any(same(vals[a], w) for w in exp[a]) for a in ("start", "end")):
            # end - start likewise: the subtraction of the values the library holds (wall-clock for one zoneinfo object,
            # elapsed time for pytz values) - the identity end - start == duration is checked on them below
            try:
                exp["duration"] = exp["duration"] | {("value", vals["end"][1] - vals["start"][1])}
            except TypeError:
                pass
        if not any(same(obs, w) for w in exp[attr]):
            fails.append({"cls": f"{cname}.{attr}:{m.forbidden() or 'valid'}-state", "case": case, "size": len(repr(case)),
                          "expected": sorted(map(repr, exp[attr])), "observed": repr(obs)})
        labels.append(obs if isinstance(obs, str) else "v")
    # the identities of the statement, on the observed values themselves
    if all(isinstance(vals[a], tuple) for a in vals):
        s, e, d = vals["start"][1], vals["end"][1], vals["duration"][1]
        try:
            if e - s != d:
                fails.append({"cls": f"{cname}:end-start!=duration", "case": case, "expected": e - s, "observed": d})
            if m.D and len(m.D) == 1 and e != s + m.D[0]:
                fails.append({"cls": f"{cname}:end!=start+DURATION", "case": case, "expected": s + m.D[0], "observed": e})
        except TypeError as x:
            fails.append({"cls": f"{cname}:identity-raises", "case": case, "expected": "comparable", "observed": str(x)})
    return tuple(labels)


def menu(cname, with_add):
    _, end_name = CLASSES[cname]
    ops = []
    vals = list(VALS) + [None, "str"]
    for v in vals:
        ops += [("set_start", v), ("set_DTSTART", v)]
    ops.append(("del_DTSTART",))
    if end_name:
        for v in vals:
            ops += [("set_end", v), ("set_END", v)]
        for d in list(DURS) + [None, "int"]:
            ops.append(("set_DURATION", d))
        ops += [("del_END",), ("del_DURATION",)]
    else:
        for v in list(VALS)[:4] + [None]:
            ops.append(("set_end", v))
    if with_add:
        for v in ("d1", "n2", "u1", "z2"):
            ops.append(("add_DTSTART", v))
            if end_name:
                ops.append(("add_END", v))
        if end_name:
            for d in ("P0", "PT1H", "P1D"):
                ops.append(("add_DURATION", d))
    return ops


def rebuild(cname, hist):
    cls, end_name = CLASSES[cname]
    c = cls()
    m = Model(has_end=end_name is not None)
    for op in hist:
        r = m.apply(op)
        try:
            apply_real(c, end_name or "DTSTART", op)
        except TypeError:
            pass
        del r
    return c, m


def search(ctx, cname, with_add, depth_bound):
    """BFS; returns (states, transitions, max depth, reached fixpoint?)."""
    cls, end_name = CLASSES[cname]
    ops = menu(cname, with_add)
    seen = {}
    c0 = cls()
    k0 = stored(c0, end_name)
    seen[k0] = []
    frontier = collections.deque([k0])
    transitions = 0
    maxdepth = 0
    fix = True
    outcomes = collections.Counter()
    # initial state is checked too
    f0 = []
    outcomes[check_state(cname, c0, Model(end_name is not None), f0, ("C16", cname, (), None))] += 1
    for f in f0:
        ctx.absorb(cname, f["case"], {"state": ("f",), "trans": 0, "traces": 0, "outcome": "FAIL", "fails": [f]})
    while frontier:
        k = frontier.popleft()
        hist = seen[k]
        if len(hist) >= depth_bound:
            fix = False
            continue
        for op in ops:
            c, m = rebuild(cname, hist)
            case = ("C16", cname, tuple(hist), op)
            fails = []
            want_exc = m.apply(op)
            try:
                apply_real(c, end_name or "DTSTART", op)
                got_exc = None
            except TypeError:
                got_exc = "TypeError"
            except Exception as e:  # noqa: BLE001
                got_exc = f"{type(e).__name__}: {e}"
            transitions += 1
            if got_exc != want_exc:
                fails.append({"cls": f"{cname}:setter-exception", "case": case, "expected": want_exc, "observed": got_exc})
            k2 = stored(c, end_name)
            want_k = tuple(tuple(repr(x) for x in lst) for lst in ((m.S, m.E, m.D) if end_name else (m.S, (), ())))
            if k2 != want_k:
                fails.append({"cls": f"{cname}:stored-properties-differ", "case": case, "expected": want_k, "observed": k2})
            elif not with_add and end_name and k2[1] and k2[2]:
                fails.append({"cls": f"{cname}:end-and-DURATION-both-stored", "case": case, "expected": "at most one", "observed": k2})
            if not fails:
                label = check_state(cname, c, m, fails, case)
                outcomes[label] += 1
            for f in fails:
                f.setdefault("size", len(repr(case)))
                f["unit_test"] = unit_test(case)
            ctx.absorb(cname, case, {"state": (cname, k2), "trans": 1, "traces": 1, "nontrivial": len(hist) >= 1,
                                     "outcome": "ok" if not fails else "FAIL", "fails": fails})
            if not fails and k2 not in seen:
                seen[k2] = hist + [op]
                maxdepth = max(maxdepth, len(hist) + 1)
                frontier.append(k2)
    return len(seen), transitions, maxdepth, fix, len(outcomes)


def unit_test(case):
    return ("import sys; sys.path[:0] = ['/verif', '/repo/src']\nfrom mc.checks import c16\n"
            f"r = c16.replay({case!r})\nfor f in r['fails']: print(f['cls'], f['expected'], f['observed'])\n")


# ------------------------------------------------------------------ parse-produced states
S_LINES = {"d1": "DTSTART;VALUE=DATE:20240501", "n1": "DTSTART:20240501T100000", "u1": "DTSTART:20240501T100000Z",
           "z1": "DTSTART;TZID=Europe/Berlin:20240330T100000", "bad-dur": "DTSTART:PT1H",
           "bad-period": "DTSTART;VALUE=PERIOD:20240501T100000/PT1H", "n2": "DTSTART:20240502T123000"}
E_VALS = {"d2": ";VALUE=DATE:20240503", "n2": ":20240502T123000", "u2": ":20240502T123000Z",
          "z2": ";TZID=Europe/Berlin:20240331T123000", "bad-dur": ":P1D", "d1": ";VALUE=DATE:20240501"}
D_LINES = {"P0": "DURATION:P0D", "P1D": "DURATION:P1D", "PT1H": "DURATION:PT1H", "P1DT2H": "DURATION:P1DT2H",
           "PT0S": "DURATION:PT0S", "bad-date": "DURATION:20240501", "-PT1H": "DURATION:-PT1H",
           # duration texts as long as a DATE (8), a DATE-TIME (15) or a UTC DATE-TIME (16), and week forms
           "len8": "DURATION:PT12H30M", "len15": "DURATION:P100DT10H10M10S", "len16": "DURATION:P1000DT10H10M10S", "len8d": "DURATION:P1234567D", "2W": "DURATION:P2W"}
PARSED = dict(VALS)
PARSED.update({"bad-dur": timedelta(hours=1), "bad-period": (1, 2), "bad-date": date(2024, 5, 1), "PT0S": timedelta(0),
               "-PT1H": timedelta(hours=-1), "len8": timedelta(hours=12, minutes=30), "len15": timedelta(days=100, hours=10, minutes=10, seconds=10),
               "len16": timedelta(days=1000, hours=10, minutes=10, seconds=10), "len8d": timedelta(days=1234567), "2W": timedelta(weeks=2)})
PARSED.update(DURS)


def parse_cases():
    for cname in ("VEVENT", "VTODO"):
        for provider in env.PROVIDERS:
            for ns, ne, nd in itertools.product((0, 1, 2), repeat=3):
                if ns + ne + nd > 4:
                    continue
                for ss in itertools.product(S_LINES, repeat=ns):
                    for es in itertools.product(E_VALS, repeat=ne):
                        for ds in itertools.product(D_LINES, repeat=nd):
                            if (ns == 2 or ne == 2 or nd == 2) and (len(set(ss)) < ns and len(set(es)) < ne):
                                continue
                            yield ("parse", cname, provider, ss, es, ds)


def run_parse(case):
    _, cname, provider, ss, es, ds = case
    cls, end_name = CLASSES[cname]
    env.use_provider(provider)
    lines = ["BEGIN:" + cname] + [S_LINES[s] for s in ss] + [end_name + E_VALS[e] for e in es] + [D_LINES[d] for d in ds] + ["END:" + cname]
    fails = []
    try:
        c = cls.from_ical("\r\n".join(lines) + "\r\n")
    except ValueError as e:
        # VTODO is strict: a line it cannot parse fails the whole parse (C04); nothing to evaluate - unless every line is valid
        if not any(t.startswith("bad") for t in ss + es + ds):
            return {"state": ("parse-ValueError-on-valid-lines",), "trans": 1, "nontrivial": True, "outcome": "FAIL",
                    "fails": [{"cls": f"{cname}:valid-lines-rejected", "case": case, "expected": "a component", "observed": str(e)[:120],
                               "size": len(repr(case)), "unit_test": unit_test(case)}]}
        return {"state": ("parse-ValueError",), "trans": 1, "traces": 0, "outcome": "parse-ValueError", "fails": []}
    m = Model(True)
    dropped = {name for name, _ in c.errors}
    m.S = [] if "DTSTART" in dropped and False else [norm_parsed(PARSED[s], provider) for s in ss]
    m.E = [norm_parsed(PARSED[e], provider) for e in es]
    m.D = [PARSED[d] for d in ds]
    if c.errors:
        if not any(t.startswith("bad") for t in ss + es + ds):
            return {"state": ("valid-line-dropped",), "trans": 1, "nontrivial": True, "outcome": "FAIL",
                    "fails": [{"cls": f"{cname}:valid-line-dropped", "case": case, "expected": "no errors", "observed": repr(c.errors)[:160],
                               "size": len(repr(case)), "unit_test": unit_test(case)}]}
        return {"state": ("parse-errors",), "trans": 1, "traces": 0, "outcome": "lenient-dropped-line", "fails": []}
    label = check_state(cname, c, m, fails, case)
    for f in fails:
        f["size"] = len(repr(case))
        f["unit_test"] = unit_test(case)
    return {"state": (cname, provider, stored(c, end_name)), "trans": 4, "nontrivial": bool(ss or es or ds),
            "outcome": repr(label), "fails": fails}


def norm_parsed(v, provider):
    return v


def replay(case):
    if case[0] == "parse":
        return run_parse(case)
    _, cname, hist, op = case
    got = []
    shim = type("X", (), {"absorb": lambda self, n, c, r: got.append(r)})()
    _, end_name = CLASSES[cname]
    c, m = rebuild(cname, list(hist))
    fails = []
    if op is not None:
        want_exc = m.apply(op)
        try:
            apply_real(c, end_name or "DTSTART", op)
            got_exc = None
        except TypeError:
            got_exc = "TypeError"
        except Exception as e:  # noqa: BLE001
            got_exc = f"{type(e).__name__}: {e}"
        if got_exc != want_exc:
            fails.append({"cls": f"{cname}:setter-exception", "case": case, "expected": want_exc, "observed": got_exc})
        k2 = stored(c, end_name)
        want_k = tuple(tuple(repr(x) for x in lst) for lst in ((m.S, m.E, m.D) if end_name else (m.S, (), ())))
        if k2 != want_k:
            fails.append({"cls": f"{cname}:stored-properties-differ", "case": case, "expected": want_k, "observed": k2})
    if not fails:
        check_state(cname, c, m, fails, case)
    del shim
    return {"outcome": "FAIL" if fails else "ok", "fails": fails}


def run(ctx):
    depth_add = 3 if ctx.quick else 4
    ctx.rule = ("E-hist on real Event/Todo/Journal objects: (a) BFS to FIXPOINT over setter/deleter histories (start, end, "
                "DTSTART, DTEND|DUE, DURATION; 8 date/date-time values of 4 kinds, None, a wrongly typed argument; 4 durations "
                f"incl. zero); (b) BFS to depth {depth_add} over the same menu plus add() of the three names; in every state the "
                "stored properties equal the reference model's and start/end/duration give the model's value or error class. "
                "(c) E-enum: all combinations of <=2 DTSTART, <=2 DTEND|DUE, <=2 DURATION lines (typed and mistyped menus, "
                "<=4 lines) parsed into VEVENT/VTODO under both providers. non-trivial = history of length >= 1 / at least one line.")
    ctx.bounds = {"values": list(VALS), "durations": list(DURS), "add_depth": depth_add, "setter_search": "fixpoint"}
    ctx.assumptions += ["in a state that is both forbidden and lacks a start either documented error class is accepted",
                        "a floating start with a zoned end (or vice versa) counts as a state the RFC forbids (3.8.2.2)"]
    for cname in CLASSES:
        n, t, d, fix, oc = search(ctx, cname, False, 99)
        ctx.part(f"setters:{cname}", states=n, transitions=t, max_depth=d, fixpoint=fix, distinct_outcomes=oc)
        if not fix:
            ctx.exhaustive = False
    for cname in ("VEVENT", "VTODO"):
        n, t, d, fix, oc = search(ctx, cname, True, depth_add)
        ctx.part(f"setters+add:{cname}", states=n, transitions=t, max_depth=d, depth_bound=depth_add, distinct_outcomes=oc)
    ctx.explore("parsed-states", parse_cases, run_parse)
