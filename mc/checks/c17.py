"""C17 - components and parameter maps are dicts keyed by upper-cased names.

Explicit-state search (E-hist) on the real objects: a state is the canonical content `(class, tuple(items))`
reached by a history of mapping operations; the object is rebuilt by replaying the history.  Every operation of
the menu is executed in every reachable state (search runs to FIXPOINT, the alphabet is finite) and compared
with the reference dict-keyed-by-upper-name on: return value / exception class, resulting content and order,
"only upper-case str keys stored".  A second, enumerative part checks the canonical key order for every class
that declares one, over all insertion permutations of all key subsets (<=4 of 8).
"""
import collections
import itertools

from mc import env  # noqa: F401
from mc.core import h64
from mc.refmodel.caseless import Ref, canonsort, fold

from icalendar.caselessdict import CaselessDict
from icalendar.parser import Parameters
from icalendar.cal import Event, Calendar, Timezone, Component, Todo
from icalendar.prop import vRecur

CLASSES = {
    "CaselessDict": (CaselessDict, ("a", "A", b"a"), ("b", "B")),
    "Parameters": (Parameters, ("cn", "CN", b"Cn"), ("x-p", "X-P")),
    "Event": (Event, ("summary", "SUMMARY", b"Summary"), ("x-b", "X-B")),
    "Component": (Component, ("uid", "UID", b"uId"), ("attendee", "Attendee")),
    "vRecur": (vRecur, ("freq", "FREQ", b"Freq"), ("count", "COUNT")),
    # non-ASCII cased letters: bytes.upper() folds ASCII only, str.upper() expands sharp s to SS
    "CaselessDict-nonascii": (CaselessDict, ("x-caf\u00e9", "X-CAF\u00c9", "x-caf\u00e9".encode("utf-8")), ("stra\u00dfe", "STRASSE")),
    "Parameters-nonascii": (Parameters, ("x-\u00e9", "X-\u00c9", "X-\u00e9".encode("utf-8")), ("x-p", "X-P")),
}
VALUES = (1, 2)


def menu(k1s, k2s, tier):
    keys = list(k1s) + list(k2s)
    ops = []
    for k in keys:
        ops += [("get", k), ("del", k), ("in", k), ("has_key", k), ("getd", k), ("getd", k, 9), ("pop", k),
                ("pop", k, 9), ("setdefault", k), ("setdefault", k, 2)]
        for v in VALUES:
            ops.append(("set", k, v))
    ops += [("popitem",), ("clear",), ("copy",), ("len",), ("keys",), ("values",), ("items",), ("iter",),
            ("sorted_keys",), ("sorted_items",), ("upper_only",), ("copy_independent",)]
    a, A, ab = k1s
    b, B = k2s
    maps = [((a, 2),), ((A, 1), (a, 2)), ((b, 1), (B, 2), (a, 1)), ((B, 1), (A, 2)), ((ab, 2), (b, 2)), ()]
    # one exact spelling twice with another variant in between: the LAST write must win (pairs only; a dict cannot repeat a key)
    for m in (((a, 1), (A, 2), (a, 1)), ((ab, 2), (a, 1), (ab, 2)), ((B, 1), (b, 2), (B, 1), (a, 2))):
        ops.append(("update_pairs", m))
    ops.append(("update_map_kw", ((a, 1), (A, 2)), ((a, 1),)))
    ops.append(("update_map_kw", ((b, 2), (B, 1)), ((b, 2), (a, 2))))
    for m in maps:
        ops += [("update_map", m), ("update_pairs", m), ("or", m), ("ior", m), ("ror", m)]
        if all(isinstance(k, str) for k, _ in m):
            ops.append(("update_kw", m))
    for variant in ("same_upper", "same_lower", "same_caseless", "same_reversed_mixed", "same_dup_variants",
                    "same_pairs_dup_variants", "value_changed", "extra_key", "missing_key", "extra_key_dup_variants",
                    "same_userdict_lower", "same_chainmap_mixed", "same_mappingproxy_lower", "userdict_value_changed",
                    "renamed_none_key", "caseless_renamed_to_none"):
        ops += [("eqv", variant), ("nev", variant)]
    return ops


def constructors(k1s, k2s):
    a, A, ab = k1s
    b, B = k2s
    menu_items = [(a, 1), (A, 2), (b, 1), (B, 2), (ab, 1)]
    out = [("new",)]
    for n in (1, 2, 3):
        for combo in itertools.permutations(menu_items, n):
            if len({k for k, _ in combo}) < n:
                continue
            out.append(("new_map", combo))
            out.append(("new_pairs", combo))
            if all(isinstance(k, str) for k, _ in combo):
                out.append(("new_kw", combo))
    for combo in itertools.permutations([a, A, b], 2):
        out.append(("fromkeys", combo, 1))
    out.append(("new_pairs", ((a, 1), (A, 2), (a, 1))))
    out.append(("new_pairs", ((ab, 2), (A, 1), (ab, 2), (b, 1))))
    return out


def other_mapping(variant, items, cls):
    """The mapping a state is compared with (built from the reference content)."""
    if variant == "same_upper":
        return dict(items), True
    if variant == "same_lower":
        return {k.lower(): v for k, v in items}, True
    if variant == "same_caseless":
        return CaselessDict({k.lower(): v for k, v in items}), True
    if variant == "same_userdict_lower":  # mappings that are NOT dict subclasses
        return collections.UserDict({k.lower(): v for k, v in items}), True
    if variant == "same_chainmap_mixed":
        return collections.ChainMap({k.capitalize(): v for k, v in items[:1]}, {k.lower(): v for k, v in items[1:]}), True
    if variant == "same_mappingproxy_lower":
        import types
        return types.MappingProxyType({k.lower(): v for k, v in items}), True
    if variant == "userdict_value_changed":
        return collections.UserDict([(k.lower(), ("changed", repr(v))) for k, v in items] or [("zz", 0)]), False
    if variant == "same_reversed_mixed":
        return collections.OrderedDict((k.capitalize(), v) for k, v in reversed(items)), True
    if variant == "same_dup_variants":
        # a plain mapping that spells every name in two letter cases (same value): same upper-cased content
        d = {}
        for k, v in items:
            d[k.lower()] = v
            d[k.upper()] = v
        return d, True
    if variant == "same_pairs_dup_variants":
        d = collections.OrderedDict()
        for k, v in items:
            d[k.capitalize()] = v
            d[k.lower()] = v
            d[k.upper()] = v
        return d, True
    if variant == "extra_key_dup_variants":
        d = {"zz": 0}
        for k, v in items[1:]:
            d[k.lower()] = v
        for k, v in items[:1]:
            d[k.lower()] = v
            d[k.upper()] = v
        return d, False
    if variant == "renamed_none_key":
        # same size; the name whose value is None (setdefault(k) stores None) exists only on this side: an absent
        # name is not a name holding None
        if not items:
            return {"ZZ": None}, False
        i = next((j for j, (_k, v) in enumerate(items) if v is None), 0)
        return dict(items[:i] + [("ZZ", 5)] + items[i + 1:]), False
    if variant == "caseless_renamed_to_none":
        # the other way round (decided by the reflected comparison): the other map holds None under a name this one lacks
        if not items:
            return CaselessDict({"zz": None}), False
        return CaselessDict(items[1:] + [("zz", None)]), False
    if variant == "value_changed":
        if not items:
            return {"ZZ": 0}, False
        (k, v), rest = items[0], items[1:]
        return dict([(k, ('changed', repr(v)))] + rest), False
    if variant == "extra_key":
        return dict(items + [("ZZ", 0)]), False
    if variant == "missing_key":
        if not items:
            return {"ZZ": 1}, False
        return dict(items[1:]), False
    raise AssertionError(variant)


def norm(v):
    """Normalise a return value for comparison."""
    if isinstance(v, (list, tuple)) and not isinstance(v, str):
        return [norm(x) for x in v]
    return v


def build(cls, ctor):
    kind = ctor[0]
    if kind == "new":
        return cls()
    if kind == "new_map":
        return cls(dict(ctor[1]))
    if kind == "new_pairs":
        return cls(list(ctor[1]))
    if kind == "new_kw":
        return cls(**dict(ctor[1]))
    if kind == "fromkeys":
        return cls.fromkeys(list(ctor[1]), ctor[2])
    raise AssertionError(ctor)


def ref_build(cname, ctor):
    kind = ctor[0]
    if kind == "new":
        return Ref()
    if kind == "fromkeys":
        return Ref([(k, ctor[2]) for k in ctor[1]])
    items = list(ctor[1])
    if cname == "vRecur" and kind == "new_kw":
        # documented: keyword values of a vRecur are wrapped into lists
        items = [(k, v if isinstance(v, (list, tuple)) else [v]) for k, v in items]
    return Ref(items)


def apply_real(cls, d, op, ref_items):
    """-> (return value, object that carries on as the state)."""
    name = op[0]
    if name == "get":
        return d[op[1]], d
    if name == "set":
        d[op[1]] = op[2]
        return None, d
    if name == "del":
        del d[op[1]]
        return None, d
    if name == "in":
        return op[1] in d, d
    if name == "has_key":
        return d.has_key(op[1]), d
    if name == "getd":
        return d.get(*op[1:]), d
    if name == "pop":
        return d.pop(*op[1:]), d
    if name == "popitem":
        return d.popitem(), d
    if name == "setdefault":
        return d.setdefault(*op[1:]), d
    if name == "update_map":
        return d.update(dict(op[1])), d
    if name == "update_pairs":
        return d.update(list(op[1])), d
    if name == "update_kw":
        return d.update(**dict(op[1])), d
    if name == "update_map_kw":
        return d.update(dict(op[1]), **dict(op[2])), d
    if name == "or":
        new = d | dict(op[1])
        assert type(new) is type(d), f"| returned {type(new).__name__}"
        return None, new
    if name == "ror":
        new = dict(op[1]) | d
        assert type(new) is type(d), f"reflected | returned {type(new).__name__}"
        return None, new
    if name == "ior":
        d |= dict(op[1])
        return None, d
    if name == "copy":
        new = d.copy()
        assert type(new) is type(d), f"copy() returned {type(new).__name__}"
        assert new is not d
        return None, new
    if name == "clear":
        return d.clear(), d
    if name == "len":
        return len(d), d
    if name == "keys":
        return list(d.keys()), d
    if name == "values":
        return list(d.values()), d
    if name == "items":
        return list(d.items()), d
    if name == "iter":
        return list(iter(d)), d
    raise AssertionError(op)


class Search:
    def __init__(self, ctx, cname):
        self.ctx = ctx
        self.cname = cname
        self.cls, self.k1s, self.k2s = CLASSES[cname]
        self.ops = menu(self.k1s, self.k2s, ctx.tier)
        self.states = {}  # key -> shortest history
        self.transitions = 0
        self.outcomes = collections.Counter()

    def key(self, d):
        return (type(d).__name__, tuple((k, repr(v)) for k, v in d.items()))

    def rebuild(self, hist):
        d = build(self.cls, hist[0])
        r = ref_build(self.cname, hist[0])
        for op in hist[1:]:
            try:
                _, d = apply_real(self.cls, d, op, r.items())
            except (KeyError, TypeError):
                pass
            try:
                r.apply(op)
            except KeyError:
                pass
        return d, r

    def fail(self, cls_, hist, op, expected, observed):
        case = ("C17", self.cname, tuple(hist), op)
        self.ctx.absorb(self.cname, case, {
            "state": ("fail", self.cname, repr(op)), "trans": 0, "traces": 0, "outcome": "FAIL:" + cls_,
            "fails": [{"cls": cls_, "case": case, "expected": expected, "observed": observed,
                       "unit_test": unit_test(self.cname, hist, op, expected, observed)}]})

    def check_state(self, hist, d, r):
        """Invariants of every reachable state."""
        items = list(d.items())
        ok = True
        if [(k, repr(v)) for k, v in items] != [(k, repr(v)) for k, v in r.items()]:
            self.fail("content-or-order", hist[:-1], hist[-1], r.items(), items)
            ok = False
        bad = [k for k in d.keys() if not isinstance(k, str) or k != k.upper()]
        if bad:
            self.fail("non-upper-key-stored", hist[:-1], hist[-1], "only upper-case str keys", bad)
            ok = False
        return ok

    def step(self, hist, op):
        """Execute one operation of the menu in the state reached by hist; compare with the reference."""
        d, r = self.rebuild(hist)
        self.transitions += 1
        name = op[0]
        before = r.items()
        if name in ("eqv", "nev"):
            other, same = other_mapping(op[1], before, self.cls)
            want = same if name == "eqv" else not same
            if self.cname in ("Event", "Component") and not isinstance(other, Component):
                # equality of a component with a non-component mapping belongs to C20 (must answer, any value)
                other = Event(other) if self.cname == "Event" else Component(other)
            try:
                got = (d == other) if name == "eqv" else (d != other)
                got2 = (other == d) if name == "eqv" else (other != d)
            except Exception as e:  # noqa: BLE001
                got = got2 = f"raised {type(e).__name__}"
            self.outcomes[f"{name}:{op[1]}:{got}"] += 1
            if got is not want:
                self.fail("equality", hist, op, want, got)
            elif isinstance(other, CaselessDict) and got2 is not want:
                self.fail("equality-reflected", hist, op, want, got2)
            return None
        if name == "sorted_keys":
            want = canonsort([k for k, _ in before], getattr(self.cls, "canonical_order", None))
            got = d.sorted_keys()
            if got != want:
                self.fail("sorted_keys", hist, op, want, got)
            self.outcomes["sorted_keys"] += 1
            return None
        if name == "sorted_items":
            want = canonsort([k for k, _ in before], getattr(self.cls, "canonical_order", None))
            got = d.sorted_items()
            if [k for k, _ in got] != want or any(repr(v) != repr(dict(before)[k]) for k, v in got):
                self.fail("sorted_items", hist, op, want, got)
            return None
        if name == "upper_only":
            return None
        if name == "copy_independent":
            c = d.copy()
            c["zz-new"] = 5
            for k in list(d.keys())[:1]:
                del c[k]
            if [(k, repr(v)) for k, v in d.items()] != [(k, repr(v)) for k, v in before]:
                self.fail("copy-aliases-original", hist, op, before, list(d.items()))
            return None
        try:
            want = ("ret", norm(r.apply(op)))
        except KeyError:
            want = ("exc", "KeyError")
        try:
            ret, d2 = apply_real(self.cls, d, op, before)
            got = ("ret", norm(ret))
        except AssertionError as e:
            self.fail("result-type", hist, op, "same class as the receiver", str(e))
            return None
        except Exception as e:  # noqa: BLE001
            got = ("exc", type(e).__name__)
            d2 = d
        self.outcomes[f"{name}:{got[0]}"] += 1
        if repr(got) != repr(want):
            self.fail("return-value", hist, op, want, got)
            return None
        new_hist = hist + [op]
        if not self.check_state(new_hist, d2, r):
            return None
        return new_hist, self.key(d2)

    def run(self):
        frontier = collections.deque()
        for ctor in constructors(self.k1s, self.k2s):
            self.transitions += 1
            try:
                d = build(self.cls, ctor)
            except Exception as e:  # noqa: BLE001
                self.fail("constructor-raises", [], ctor, "constructs", f"{type(e).__name__}: {e}")
                continue
            r = ref_build(self.cname, ctor)
            if not self.check_state([ctor], d, r):
                continue
            k = self.key(d)
            if k not in self.states:
                self.states[k] = [ctor]
                frontier.append(k)
        depth = 0
        while frontier:
            k = frontier.popleft()
            hist = self.states[k]
            depth = max(depth, len(hist))
            for op in self.ops:
                out = self.step(list(hist), op)
                if out is None:
                    continue
                new_hist, k2 = out
                if k2 not in self.states:
                    self.states[k2] = new_hist
                    frontier.append(k2)
        return depth


def unit_test(cname, hist, op, expected, observed):
    return (f"# explorer-free replay of a C17 counter-example\n"
            f"import sys; sys.path[:0] = ['/verif', '/repo/src']\n"
            f"from mc.checks import c17\n"
            f"s = c17.Search(type('X', (), dict(tier='quick', absorb=lambda *a: print('FAIL', a[2]['fails'][0]['cls'])))(), {cname!r})\n"
            f"print('history:', {list(hist)!r}); print('operation:', {op!r})\n"
            f"print('expected:', {expected!r}); print('observed at check time:', {observed!r})\n"
            f"s.step({list(hist)!r}, {op!r})\n")


def canon_cases():
    """Canonical ordering: every class that declares priority names x every insertion order of <=4 of 8 keys."""
    for cname, cls in (("Event", Event), ("Calendar", Calendar), ("Timezone", Timezone), ("vRecur", vRecur),
                       ("Todo", Todo), ("CaselessDict", CaselessDict), ("EventList", EventList), ("EventDup", EventDup), ("EventNone", EventNone)):
        co = list(cls.canonical_order or ())
        pri = (co[:1] + co[2:3] + co[-1:])[:3]
        names = [p.lower() for p in pri[:2]] + [p for p in pri[2:]] + ["x-z", "A-first", "attendee", "Zz", "m"]
        names = list(dict.fromkeys(names))[:8]
        for n in range(0, 5):
            for combo in itertools.permutations(names, n):
                yield ("canon", cname, combo)


class EventList(Event):          # an application's own priority names, held in a LIST
    canonical_order = ["UID", "SUMMARY", "DTSTART"]


class EventDup(Event):           # "UID first": the inherited tuple already names UID, so it is declared twice
    canonical_order = ("UID",) + tuple(Event.canonical_order)


class EventNone(Event):
    canonical_order = ()


_CLS = {"Event": Event, "Calendar": Calendar, "Timezone": Timezone, "vRecur": vRecur, "Todo": Todo,
        "CaselessDict": CaselessDict, "EventList": EventList, "EventDup": EventDup, "EventNone": EventNone}
_DECLARED = {k: (list(v.canonical_order) if v.canonical_order is not None else None) for k, v in _CLS.items()}


def run_canon(case):
    _, cname, combo = case
    cls = _CLS[cname]
    d = cls()
    for i, k in enumerate(combo):
        d[k] = i
    declared = _DECLARED[cname]
    once = [k for k in (declared or ()) if (declared or ()).count(k) == 1]
    want = canonsort([fold(k) for k in combo], once)
    got = d.sorted_keys()
    fails = []
    dup = set(declared or ()) - set(once)
    if dup & {fold(k) for k in combo}:
        # a name declared twice has no single declared position: the result is still each stored name once, priority names
        # before all others, the once-declared ones among them in declared order, the others alphabetical
        keys = {fold(k) for k in combo}
        head = [k for k in got if k in set(declared)]
        ok = sorted(got) == sorted(keys) and got[:len(head)] == head and got[len(head):] == sorted(keys - set(declared)) and \
            [k for k in head if k in once] == [k for k in once if k in keys]
        if not ok:
            fails.append({"cls": "canonical-order:name-declared-twice", "case": case, "expected": "each key once, priority names first, rest alphabetical", "observed": got})
        want = got
    elif got != want:
        fails.append({"cls": "canonical-order", "case": case, "expected": want, "observed": got})
    got_items = d.sorted_items()
    if [k for k, _ in got_items] != want:
        fails.append({"cls": "canonical-order-items", "case": case, "expected": want, "observed": got_items})
    try:
        d.to_ical()
    except Exception:  # noqa: BLE001 - values are plain ints; serialising is only asked for its side effects here
        pass
    now = list(cls.canonical_order) if cls.canonical_order is not None else None
    if now != declared or (d.sorted_keys() != got):
        fails.append({"cls": "canonical-order:declaration-changed-by-use", "case": case, "expected": declared, "observed": now})
        cls.canonical_order = type(cls.canonical_order)(declared)
    pri = set(declared or ())
    nt = len({fold(k) for k in combo} & pri) >= 1 and len({fold(k) for k in combo} - pri) >= 1
    return {"state": (cname, tuple(got)), "trans": 2, "nontrivial": nt, "outcome": "ok" if not fails else "FAIL",
            "fails": fails}


def run_big(case):
    """('big', class, n): maps with n names (beyond small-integer and small-table thresholds): the same laws."""
    _, cname, n = case
    cls = {"CaselessDict": CaselessDict, "Parameters": Parameters, "Event": Event}[cname]
    fails = []
    names = [f"x-name-{i:04d}" for i in range(n)]
    d = cls()
    for i, k in enumerate(names):
        d[k if i % 2 else k.upper()] = i
    ref = {k.upper(): i for i, k in enumerate(names)}

    def chk(label, want, got):
        if want != got:
            fails.append({"cls": "big-map:" + label, "case": case, "expected": want, "observed": got})
    chk("len", n, len(d))
    chk("keys", list(ref), list(d.keys()))
    same = cls()
    for k in reversed(names):
        same[k.capitalize()] = ref[k.upper()]
    others = [(same, "same class, reverse insertion"), (d.copy(), "copy")]
    if cname != "Event":  # equality of a component with a non-component mapping is C20's business
        others += [(dict(ref), "dict upper"), ({k.lower(): v for k, v in ref.items()}, "dict lower")]
    for other, label in others:
        chk("equal:" + label, (True, False), (d == other, d != other))
        chk("equal-reflected:" + label, (True, False), (other == d, other != d))
    if n:
        changed = dict(ref)
        changed[names[n // 2].upper()] = -1
        missing = dict(ref)
        del missing[names[-1].upper()]
        renamed = dict(missing)
        renamed["ZZ-OTHER"] = ref[names[-1].upper()]
        for other, label in ((changed, "one value changed"), (missing, "one name missing"), (renamed, "one name renamed")):
            if cname == "Event":
                other = Event(other)
            chk("unequal:" + label, (False, True), (d == other, d != other))
        chk("get-last", n - 1, d.get(names[-1].upper()))
        chk("contains-lower", True, names[n // 2].lower() in d)
        chk("sorted_keys", sorted(ref), d.sorted_keys() if cname != "Event" else sorted(d.sorted_keys()))
        # a value that is not equal to itself, the very same object on both sides: equal, as for dict
        nan = float("nan")
        d["x-nan"] = nan
        twin = d.copy()
        chk("equal:shared-NaN-object", ({"a": nan} == {"a": nan}, False), (d == twin, d != twin))
        other_nan = cls(d)
        other_nan["X-NAN"] = float("nan")
        chk("unequal:distinct-NaN-objects", (False, True), (d == other_nan, d != other_nan))
        del d["x-nan"]
        chk("pop-first", 0, d.pop(names[0]))
        chk("len-after-pop", n - 1, len(d))
    return {"state": ("big", cname, n, not fails), "trans": 20, "nontrivial": n > 1, "outcome": "big-ok" if not fails else "FAIL", "fails": fails}


def replay(case):
    if case[0] == "big":
        return run_big(case)
    if case[0] == "canon":
        return run_canon(case)
    _, cname, hist, op = case
    got = []
    s = Search(type("X", (), dict(tier="quick", absorb=lambda self, n, c, r: got.append(r)))(), cname)
    if hist:
        s.step(list(hist), op)
    else:
        s.ops = []
        s.run()
    fails = [f for r in got for f in r["fails"]]
    return {"outcome": "FAIL" if fails else "ok", "fails": fails}


def run(ctx):
    ctx.rule = ("E-hist: BFS to fixpoint over histories of mapping operations on real CaselessDict / Parameters / "
                "Event / Component / vRecur objects (keys: two case variants + a bytes variant of one name, two "
                "case variants of another; values 1,2); every menu operation is executed in every reachable state "
                "and compared with a dict keyed by the upper-cased name. non-trivial = a transition whose history "
                "or operation involves two case variants of one key. Plus E-enum of canonical ordering over all "
                "insertion permutations of <=4 of 8 keys for 6 classes.")
    ctx.assumptions += ["pop(key) without default returns None for a missing key (documented signature)",
                        "equality of a Component with a non-component mapping is decided by C20, not here",
                        "vRecur(**kw) wraps scalar keyword values into lists (documented)"]
    total_states = 0
    for cname in CLASSES:
        s = Search(ctx, cname)
        depth = s.run()
        total_states += len(s.states)
        ctx.part(f"bfs:{cname}", states=len(s.states), transitions=s.transitions, max_depth=depth,
                 operations=len(s.ops), distinct_outcomes=len(s.outcomes), fixpoint=True)
        # feed the aggregate: one result per state (with its shortest history) so counts are measured
        per_state = s.transitions // max(1, len(s.states))
        rest = s.transitions - per_state * len(s.states)
        for i, (k, hist) in enumerate(s.states.items()):
            variants = {fold(o[1]) for o in hist if len(o) > 1 and isinstance(o[1], (str, bytes))}
            raw = {o[1] for o in hist if len(o) > 1 and isinstance(o[1], (str, bytes))}
            ctx.absorb(cname, ("C17-state", cname, tuple(hist)), {
                "state": k, "trans": per_state + (rest if i == 0 else 0), "traces": per_state,
                "nontrivial": len(raw) > len(variants) or len(k[1]) > 0, "outcome": "state"})
        for o, n in s.outcomes.items():
            ctx.agg.outcomes[o] += n
    ctx.bounds = {"classes": list(CLASSES), "keys_per_class": 5, "values": list(VALUES),
                  "search": "fixpoint (complete reachability over the alphabet)", "bfs_states": total_states}
    ctx.explore("canonical-order", canon_cases, run_canon, jobs=min(ctx.jobs, 8))

    def gen_big():
        for cname in ("CaselessDict", "Parameters", "Event"):
            for n in list(range(0, 20)) + [63, 64, 65, 127, 128, 129, 255, 256, 257, 258, 300, 511, 512, 513, 1000, 1023, 1024, 1025, 4096, 5000]:
                yield ("big", cname, n)

    ctx.explore("maps with many names", gen_big, run_big, jobs=min(ctx.jobs, 8))
