"""C04 - parsing is total (a result or ValueError); VEVENT isolates bad property lines.

(A) E-dev: deviations from well-formed seeds (the 14 reference-written calendars of C09 + the repository's example .ics
    files): at EVERY line: delete, duplicate, swap with the next, drop the value, drop the name, re-kind BEGIN/END, replace the
    value by each of 16 junk values, insert each of 54 hostile lines before it; truncation at EVERY byte; wrapping in 64 nested
    unknown components.  Quick: all single deviations; thorough: additionally all pairs (insert hostile x junk value) on the
    generated corpus.
(B) E-enum token soup: every sequence of <= k lines from a 48-line menu, bare and inside VCALENDAR / VEVENT; every byte string
    of length <= 2; every string of length <= 3 over {B : ; \" = , \\ CR LF SP \\xff}.
Every case: both providers x multiple in {False, True} x bytes and str.
Oracle (1): from_ical, then to_ical() and walk() of everything returned and to_ical() of every walked component terminate
(watchdog) and raise nothing but ValueError.
Oracle (2), differential: a line is BAD iff parsing it alone inside a strict component raises ValueError; for every VEVENT body
built from menus of good and bad lines (all ordered selections of <= 4 lines, <= 2 bad, around a nested VALARM) the parsed
VEVENT equals the parse of the same body without the bad lines, `errors` has exactly one entry per bad line, and the same body
inside VTODO / VCALENDAR / an unknown component raises ValueError.
"""
import glob
import itertools
import os
import traceback

from mc import env
from mc.checks.c09 import BASES, render
from mc.snapshot import snapshot

from icalendar.cal import Calendar, Component, Event

KINDS_RE = ("VEVENT", "VTIMEZONE", "VCALENDAR", "X-FOO", "STANDARD")
JUNK = ("", " ", "x", "0", "-1", "20240101", "20240101T000000", "99999999T999999", "P", "PT", ",", ";", ":", "\\", '"', "9" * 300,
        # values that are well-formed text of SOME type but out of range / of the wrong kind for the place they stand in
        "P99999999999W", "-P99999999999D", "PT99999999999999999H", "20200101/20200102", "100000/110000", "20200101T000000Z/20200102",
        "20200101T000000Z/P99999999999W", "99991231T235959Z/P1D", "00010101T000000Z/-P1D", "+99999999999", "1e999;-1e999", "nan;inf",
        "00000000T000000Z", "20240230T250000", "FREQ=YEARLY;COUNT=0;INTERVAL=0", "+9999", "-240000")
HOSTILE = (
    "DTSTART;TZID=Europe:20240101T000000", "DTSTART;TZID=/x:20240101T000000", "DTSTART;TZID=../../etc/passwd:20240101T000000",
    "DTSTART;TZID=:20240101T000000", "DTSTART;TZID=" + "a" * 300 + ":20240101T000000", "DTSTART;TZID=a\x00b:20240101T000000",
    "DTSTART;TZID=Europe/Berlin,Europe/Paris:20240101T100000", "DTSTART;TZID=Europe/Berlin:00010101T000000",
    "DTEND;TZID=Pacific/Kiritimati:99991231T235959", "DTSTART;TZID=\"Europe/Berlin\":20240101T100000", "DUE;TZID=Custom/C09:20240101T100000",
    "RRULE:FREQ=", "RRULE:FREQ=DAILY;COUNT=x", "RRULE:;;;", "RRULE:FREQ=YEARLY;BYMONTH=13;BYDAY=9XX", "GEO:1", "GEO:a;b", "DURATION:P",
    "FREEBUSY:/", "FREEBUSY:20240101T000000Z/", "RDATE;VALUE=PERIOD:x/y", "X-A;P=\"unbalanced:v", ":", ";", "BEGIN:", "END:", "END:VEVENT",
    "BEGIN:VTIMEZONE", "TZID:Europe/Berlin", "TZID:Custom/Dup", "TZOFFSETFROM:+2500", "TZOFFSETTO:0100", "DTSTART;VALUE=DATE:20240101",
    "DTSTART:20240101T000000Z", "ATTACH;ENCODING=BASE64;VALUE=BINARY:!!!", "TRIGGER;VALUE=DATE-TIME:20240101",
    # parameters that are single-valued by their meaning, given several values (the reader hands back a list)
    "X-FOO;VALUE=DATE,TEXT:20200101", 'X-FOO;VALUE="A","B":x', "DTSTART;VALUE=DATE,DATE-TIME:20200101", "SUMMARY;LANGUAGE=en,de;ALTREP=a,b:s",
    "ATTACH;ENCODING=BASE64,8BIT;VALUE=BINARY,URI:AAAA", "TRIGGER;RELATED=START,END:-PT5M", "FREEBUSY;FBTYPE=BUSY,FREE:20240101T000000Z/PT1H",
    "UNKNOWN-PROP;VALUE=DURATION,PERIOD:PT1H", "X-MOZ-LASTACK;VALUE=DATE-TIME,DATE:20240101T000000Z",
    # percent-encoded specials in places that are written back raw (URI / CAL-ADDRESS values, parameter values)
    "URL:http://x/%0Ay%0D%0Az", "ATTENDEE;CN=a%0Ab:mailto:a@x?body=l1%0Al2", 'SUMMARY;ALTREP="data:text/plain,a%0Ab%22%3B":s',
    "X-P;X=%22%3B%3A%2C%5C%0D%0A%00:%22%3B%3A%2C%5C%0D%0A%00", "ATTACH:mailto:?body=%0a%2c%3a",
    # one parameter name several times on a line (also in another letter case), earlier occurrences multi-valued
    'ATTENDEE;MEMBER="mailto:a@x","mailto:b@x";MEMBER="mailto:c@x":mailto:d@x', "X-PROP;X-P=1;X-P=2;X-P=3:value",
    "SUMMARY;LANGUAGE=de,en;language=fr:hello", "DTSTART;TZID=Europe/Berlin;TZID=Asia/Tokyo;tzid=UTC:20240101T000000",
)
SUBDAILY = "RRULE:FREQ=SECONDLY"
SOUP = (
    "BEGIN:VCALENDAR", "END:VCALENDAR", "BEGIN:VEVENT", "END:VEVENT", "BEGIN:VTIMEZONE", "END:VTIMEZONE", "BEGIN:STANDARD", "END:STANDARD",
    "BEGIN:DAYLIGHT", "END:DAYLIGHT", "BEGIN:VALARM", "END:VALARM", "BEGIN:X", "END:X", "BEGIN:", "END:", "TZID:Custom/S", "TZID:Europe/Berlin",
    "TZID:", "DTSTART:19700101T000000", "DTSTART;VALUE=DATE:19700101", "DTSTART:19700101T000000Z", "DTSTART;TZID=Custom/S:20240101T000000",
    "DTSTART;TZID=Europe/Berlin:20240101T000000", "TZOFFSETFROM:+0100", "TZOFFSETTO:+0200", "TZOFFSETTO:", "TZNAME:X", "TZNAME:X",
    "RRULE:FREQ=YEARLY;BYMONTH=3;BYDAY=-1SU", "RRULE:FREQ=YEARLY", "RRULE:", "RDATE:19710101T000000", "RDATE:19710101", "UID:1", "SUMMARY:s",
    "X-COMMENT:c", "x", ":", ";", "A;B", "A;B=:", "A:", "FREEBUSY:19700101T000000Z/PT1H", "FREEBUSY:", "DURATION:PT1H", "TRIGGER:-PT1M", "\t",
)
CHARS = ("B", ":", ";", '"', "=", ",", "\\", "\r", "\n", " ", "\xff")


def example_files():
    root = os.path.join(env.SRC, "icalendar", "tests")
    out = []
    for sub in ("calendars", "events", "timezones", "alarms"):
        out += sorted(glob.glob(os.path.join(root, sub, "*.ics")))
    return out


_SEEDS = None


def seeds(quick):
    """name -> list of logical lines"""
    global _SEEDS
    if _SEEDS is None:
        s = {("gen", k): list(v) for k, v in BASES.items()}
        files = example_files()
        for f in files:
            try:
                text = open(f, "rb").read().decode("utf-8", "replace")
            except OSError:
                continue
            lines = [ln for ln in text.replace("\r\n", "\n").split("\n")]
            s[("file", os.path.basename(f))] = lines
        _SEEDS = s
    if quick:
        small = sorted((k for k in _SEEDS if k[0] == "file"), key=lambda k: (len(_SEEDS[k]), k))[:25]
        return {k: v for k, v in _SEEDS.items() if k[0] == "gen" or k in small}
    return _SEEDS


def innermost_frame(exc):
    tb = traceback.extract_tb(exc.__traceback__)
    for fr in reversed(tb):
        if "/icalendar/" in fr.filename and "/mc/" not in fr.filename:
            return f"{os.path.basename(fr.filename)}:{fr.name}"
    return "?"


def exercise(data, multiple, case, fails, what):
    """Oracle (1) on one input; returns outcome label."""
    try:
        got = Calendar.from_ical(data, multiple=multiple)
    except ValueError:
        return "ValueError"
    except Exception as e:  # noqa: BLE001
        sig = f"{type(e).__name__}@{innermost_frame(e)}"
        fails.append(fail(f"{what}:from_ical-raises:{sig}", case, "a result or ValueError", f"{type(e).__name__}: {str(e)[:100]}"))
        return "crash"
    comps = got if multiple else [got]
    for c in comps:
        try:
            c.to_ical()
            for sub in c.walk():
                sub.to_ical()
            for ev in c.walk("VEVENT"):
                ev.to_ical()
        except ValueError:
            return "parsed+ser-ValueError"
        except Exception as e:  # noqa: BLE001
            sig = f"{type(e).__name__}@{innermost_frame(e)}"
            fails.append(fail(f"{what}:serialise/walk-raises:{sig}", case, "bytes or ValueError", f"{type(e).__name__}: {str(e)[:100]}"))
            return "parsed+crash"
    return "parsed"


def fail(cls, case, expected, observed, known=None):
    f = {"cls": cls, "case": case, "expected": expected, "observed": observed, "size": len(repr(case)),
         "unit_test": ("import sys; sys.path[:0] = ['/verif', '/repo/src']\nfrom mc.checks import c04\n"
                       f"r = c04.replay({case!r})\nfor f in r['fails']: print(f['cls'], f.get('known'), f['expected'], f['observed'])\n")}
    if known:
        f["known"] = known
    return f


def all_forms(text_or_bytes):
    """bytes and str forms of an input (str skipped when it does not decode)."""
    if isinstance(text_or_bytes, bytes):
        forms = [text_or_bytes]
        try:
            forms.append(text_or_bytes.decode("utf-8"))
        except UnicodeDecodeError:
            pass
        return forms
    forms = [text_or_bytes]
    try:
        forms.append(text_or_bytes.encode("utf-8"))
    except UnicodeEncodeError:
        pass
    return forms


def run_all(data, case, what):
    fails = []
    labels = []
    for provider in env.PROVIDERS:
        for form in all_forms(data):
            for multiple in (False, True):
                env.use_provider(provider)
                labels.append(exercise(form, multiple, case, fails, what))
    return labels, fails


def deviate(lines, dev):
    kind = dev[0]
    ls = list(lines)
    if kind == "del":
        del ls[dev[1]]
    elif kind == "dup":
        ls.insert(dev[1], ls[dev[1]])
    elif kind == "swap":
        i = dev[1]
        ls[i], ls[i + 1] = ls[i + 1], ls[i]
    elif kind == "dropvalue":
        ls[dev[1]] = ls[dev[1]].split(":", 1)[0] + ":"
    elif kind == "dropname":
        ls[dev[1]] = ":" + ls[dev[1]].split(":", 1)[-1]
    elif kind == "rekind":
        head = ls[dev[1]].split(":", 1)[0]
        ls[dev[1]] = head + ":" + KINDS_RE[dev[2]]
    elif kind == "junk":
        ls[dev[1]] = ls[dev[1]].split(":", 1)[0] + ":" + JUNK[dev[2]]
    elif kind == "insert":
        ls.insert(dev[1], HOSTILE[dev[2]])
    elif kind == "insert-subdaily":
        assert ls[dev[1]].startswith("RRULE:"), ls[dev[1]]
        ls[dev[1]] = SUBDAILY
    elif kind == "wrap":
        ls = ["BEGIN:X%d" % i for i in range(dev[1])] + ls + ["END:X%d" % i for i in reversed(range(dev[1]))]
    elif kind == "insert+junk":
        ls[dev[3]] = ls[dev[3]].split(":", 1)[0] + ":" + JUNK[dev[4]]
        ls.insert(dev[1], HOSTILE[dev[2]])
    return ls


def run_dev(case):
    _, seed_key, dev = case
    lines = seeds(False)[seed_key]
    if dev[0] == "trunc":
        data = render(lines).encode("utf-8", "surrogatepass")[:dev[1]]
    else:
        data = render(deviate(lines, dev))
        try:
            data = data.encode("utf-8")
        except UnicodeEncodeError:
            pass
    if dev[0] == "insert-subdaily":
        # known pathological input: only the provider named in the case, only once
        fails = []
        env.use_provider(dev[2])
        import signal
        from mc.core import CaseTimeout
        signal.setitimer(signal.ITIMER_REAL, 3.0)
        try:
            label = exercise(data, False, case, fails, "dev")
        except CaseTimeout:
            label = "TIMEOUT"
            fails.append(fail("dev:does-not-terminate", case, "terminates", "no result within 3 s (watchdog)",
                              known="C04-subdaily-rrule-hang" if dev[2] == "pytz" else None))
        finally:
            signal.setitimer(signal.ITIMER_REAL, 0)
        return {"state": ("subdaily", label), "trans": 1, "nontrivial": True, "outcome": "subdaily:" + label, "fails": fails}
    labels, fails = run_all(data, case, "dev:" + dev[0])
    return {"state": (seed_key, dev[0], tuple(labels)), "trans": len(labels), "nontrivial": True, "fails": fails,
            "outcome": "dev:" + ",".join(sorted(set(labels)))}


def run_soup(case):
    kind = case[0]
    if kind == "soup":
        _, wrapper, idx = case
        lines = [SOUP[i] for i in idx]
        if wrapper == "cal":
            lines = ["BEGIN:VCALENDAR"] + lines + ["END:VCALENDAR"]
        elif wrapper == "event":
            lines = ["BEGIN:VCALENDAR", "BEGIN:VEVENT"] + lines + ["END:VEVENT", "END:VCALENDAR"]
        data = "\r\n".join(lines) + "\r\n"
    elif kind == "bytes":
        data = bytes(case[1])
    elif kind == "blank":
        _, u, n = case
        data = bytes((u * n)[:n]).decode("ascii") if n % 2 else bytes((u * n)[:n])
    else:
        data = "".join(CHARS[i] for i in case[1])
        if "\xff" in data:
            data = data.replace("\xff", "").encode("utf-8") + b"\xff" * data.count("\xff")
    labels, fails = run_all(data, case, kind)
    return {"state": (kind, case[1:], tuple(labels)), "trans": len(labels), "nontrivial": (len(case[-1]) >= 2 if kind not in ("bytes", "blank") else True),
            "fails": fails, "outcome": kind + ":" + ",".join(sorted(set(labels)))}


# ------------------------------------------------------------------ oracle (2)
GOOD = ("X-FOO;VALUE=DATE,TEXT:20200101", "SUMMARY:good", "DTSTART;TZID=Europe/Berlin:20240601T100000", "RRULE:FREQ=DAILY;COUNT=2", "ATTENDEE;CN=A:mailto:a@x", "COMMENT:one",
        "COMMENT:two", "X-GOOD;P=1:v", "CATEGORIES:a,b", "FREEBUSY:19970308T160000Z/PT3H,19970308T200000Z/19970308T210000Z")
BAD = ("DTSTART:notadate", "RRULE:FREQ=FOO", "GEO:1", "DURATION:P", "X-BAD;P:v", ":novalue", "ATTENDEE;CN=\"x:y", "DTEND:20241301T000000",
       "COMMENT;=x:three", "RDATE:2024",
       # multi-valued lines of which only ONE element is unparsable: the LINE is bad
       "FREEBUSY:19970308T160000Z/PT3H,19970308T200000Z/XX", "FREEBUSY:,19970308T160000Z/PT3H",
       "EXDATE;TZID=Europe/Berlin:20240601T100000,2024")
ALARM = ["BEGIN:VALARM", "ACTION:DISPLAY", "TRIGGER:-PT5M", "END:VALARM"]
_BADNESS = {}


def is_bad(line, provider):
    key = (line, provider)
    if key not in _BADNESS:
        try:
            Component.from_ical("BEGIN:VTODO\r\n" + line + "\r\nEND:VTODO\r\n")
            _BADNESS[key] = False
        except ValueError:
            _BADNESS[key] = True
    return _BADNESS[key]


def run_isolation(case):
    _, provider, sel, alarm_pos = case
    env.use_provider(provider)
    fails = []
    menu = GOOD + BAD
    lines = [menu[i] for i in sel]
    bad = [ln for ln in lines if is_bad(ln, provider)]
    good_only = [ln for ln in lines if not is_bad(ln, provider)]

    def body(ls):
        b = list(ls)
        b[alarm_pos:alarm_pos] = ALARM
        return b

    def doc(container, ls):
        return "\r\n".join([f"BEGIN:{container}"] + body(ls) + [f"END:{container}", ""])
    try:
        ev = Component.from_ical(doc("VEVENT", lines))
        ref = Component.from_ical(doc("VEVENT", good_only))
    except Exception as e:  # noqa: BLE001
        fails.append(fail("isolation:VEVENT-parse-raises", case, "a VEVENT", f"{type(e).__name__}: {str(e)[:100]}"))
        return {"state": ("iso-raises",), "trans": 2, "nontrivial": True, "outcome": "iso:raises", "fails": fails}
    if snapshot(ev) != snapshot(ref):
        fails.append(fail("isolation:other-properties-or-subcomponents-changed", case, snapshot(ref), snapshot(ev)))
    if len(ev.errors) != len(bad):
        fails.append(fail("isolation:error-list", case, f"{len(bad)} entries", ev.errors))
    if ref.errors:
        fails.append(fail("isolation:errors-for-good-lines", case, [], ref.errors))
    for container in ("VTODO", "VCALENDAR", "X-COMP"):
        try:
            Component.from_ical(doc(container, lines))
            raised = False
        except ValueError:
            raised = True
        except Exception as e:  # noqa: BLE001
            fails.append(fail(f"isolation:{container}-raises-{type(e).__name__}", case, "ValueError", str(e)[:100]))
            continue
        if raised != bool(bad):
            fails.append(fail(f"isolation:strict-{container}", case, "ValueError" if bad else "accepted", "accepted" if not raised else "ValueError"))
    return {"state": ("iso", provider, tuple(sel), alarm_pos, len(ev.errors)), "trans": 5, "nontrivial": bool(bad), "fails": fails,
            "outcome": f"iso:bad={len(bad)}" if not fails else "FAIL"}


# long runs of one character class in every token position, ended by a character that does not belong there: a reader
# that backtracks (or recurses) over the run does not terminate in any useful sense
LONG_L = (16, 28, 40, 64, 256, 4096)
LONG_END = ("&", "/", "=", "+", "@", "%", " ", "\u00e9", "\t", '"', ".", "")
LONG_SHAPES = {
    "name": lambda r, e: "X" * r + e + ":v",
    "x-name": lambda r, e: "X-" + "a1-" * (r // 3) + e + ":v",
    "dotted-name": lambda r, e: "a." * (r // 2) + e + ":v",
    "no-colon": lambda r, e: "NHVhbGVj" * (r // 8) + e + "ctz",
    "param-key": lambda r, e: "X-A;" + "p" * r + e + "=1:v",
    "param-key-dashes": lambda r, e: "X-A;" + "-" * r + e + "=1:v",
    "param-value": lambda r, e: "X-A;P=" + "v" * r + e + ":v",
    "quoted-open": lambda r, e: 'X-A;P="' + "q" * r + e + ":v",
    "many-params": lambda r, e: "X-A" + ";P=1" * (r // 4) + e + ":v",
    "many-values": lambda r, e: "X-A;P=" + "a," * (r // 2) + e + ":v",
    "backslashes": lambda r, e: "COMMENT:" + "\\" * r + e,
    "date-digits": lambda r, e: "DTSTART:" + "2" * r + e,
    "duration-digits": lambda r, e: "DURATION:P" + "1" * r + e,
    "rrule-list": lambda r, e: "RRULE:FREQ=DAILY;BYDAY=" + "MO," * (r // 3) + e,
    "geo-digits": lambda r, e: "GEO:" + "1" * r + e + ";1",
    "offset-digits": lambda r, e: "TZOFFSETTO:+" + "0" * r + e,
    "base64": lambda r, e: "ATTACH;ENCODING=BASE64;VALUE=BINARY:" + "A" * r + e,
    "period-list": lambda r, e: "FREEBUSY:" + "19970308T160000Z/PT3H," * (r // 22) + e,
}


def run_long(case):
    _, shape, r, e, as_bytes = case
    line = LONG_SHAPES[shape](r, e)
    fails = []
    keep = ["UID:1", "SUMMARY:kept"]

    def doc(container, with_line):
        t = "\r\n".join([f"BEGIN:{container}"] + keep[:1] + ([line] if with_line else []) + keep[1:] + ALARM + [f"END:{container}", ""])
        return t.encode("utf-8") if as_bytes else t
    outcome = []
    try:
        ev = Component.from_ical(doc("VEVENT", True))
        ref = Component.from_ical(doc("VEVENT", False))
        out = ev.to_ical()
        [c.name for c in ev.walk()]
        kept = snapshot_props(ev) == snapshot_props(ref)
        if not kept or len(ev.subcomponents) != 1 or len(ev.errors) > 1:
            fails.append(fail("long:VEVENT-other-content-changed", case, "UID, SUMMARY and the VALARM kept, at most one error", (sorted(ev.keys()), len(ev.subcomponents), ev.errors)))
        outcome.append("event:dropped" if ev.errors else "event:kept")
        del out
    except ValueError:
        fails.append(fail("long:VEVENT-parse-fails", case, "the line isolated", "ValueError"))
    except RecursionError as e_:
        fails.append(fail("long:VEVENT-RecursionError", case, "a result or ValueError", str(e_)[:80]))
    except Exception as e_:  # noqa: BLE001
        fails.append(fail(f"long:VEVENT-raises-{type(e_).__name__}", case, "a result or ValueError", str(e_)[:80]))
    try:
        td = Component.from_ical(doc("VTODO", True))
        td.to_ical()
        outcome.append("todo:accepted")
    except ValueError:
        outcome.append("todo:ValueError")
    except Exception as e_:  # noqa: BLE001
        fails.append(fail(f"long:VTODO-raises-{type(e_).__name__}", case, "a result or ValueError", str(e_)[:80]))
    return {"state": ("long", shape, r, e, tuple(outcome)), "trans": 6, "nontrivial": True, "fails": fails,
            "outcome": "|".join(outcome) if not fails else "FAIL"}


def snapshot_props(c):
    return {k: str(c[k]) for k in c.keys() if k in ("UID", "SUMMARY")}


def run_case(case):
    k = case[0]
    if k == "long":
        return run_long(case)
    if k == "dev":
        return run_dev(case)
    if k == "iso":
        return run_isolation(case)
    return run_soup(case)


replay = run_case


def run(ctx):
    k = 2 if ctx.quick else 3
    sd = seeds(ctx.quick)
    ctx.rule = (f"(L) long runs: {len(LONG_SHAPES)} token positions x run lengths {LONG_L} x {len(LONG_END)} terminators x str/bytes, each inside VEVENT (isolated) and VTODO (strict), 5 s watchdog per case; E-dev: {len(sd)} seeds (14 generated + repository example files"
                + (", the 25 smallest in quick" if ctx.quick else "") + ") x every single deviation at every line (delete, duplicate, "
                f"swap, drop value, drop name, re-kind, {len(JUNK)} junk values, {len(HOSTILE)} hostile lines) + truncation at every byte "
                "of the generated seeds + 64-deep wrapping" + ("" if ctx.quick else " + all pairs (hostile insert x junk value) on 4 generated seeds")
                + f"; E-enum: all sequences of <= {k} of {len(SOUP)} soup lines x 3 wrappers, all byte strings of length <= 2, all strings of "
                "length <= 3 over 11 characters; each under 2 providers x multiple x bytes/str; isolation: all ordered selections of <= 4 of "
                "18 good/bad lines (<= 2 bad) x 2 alarm positions x 2 providers. non-trivial = every deviation / soup of >= 2 lines / body with a bad line.")
    ctx.bounds = {"seeds": len(sd), "hostile": len(HOSTILE), "junk": len(JUNK), "soup_k": k}
    ctx.assumptions += ["termination is observed with a watchdog (5 s quick / 20 s thorough per case), not proved",
                        "a sub-daily RRULE inside a VTIMEZONE is exercised once per provider (known to run for hours under pytz)"]

    def gen_dev():
        for key, lines in sd.items():
            n = len(lines)
            for i in range(n):
                yield ("dev", key, ("del", i))
                yield ("dev", key, ("dup", i))
                if i + 1 < n:
                    yield ("dev", key, ("swap", i))
                if ":" in lines[i]:
                    yield ("dev", key, ("dropvalue", i))
                    yield ("dev", key, ("dropname", i))
                    head = lines[i].split(":", 1)[0].upper()
                    if head in ("BEGIN", "END"):
                        for r in range(len(KINDS_RE)):
                            yield ("dev", key, ("rekind", i, r))
                    else:
                        for j in range(len(JUNK)):
                            if key[0] == "gen" or j % 8 == i % 8:  # repository examples: every 8th junk value per line, rotated by line
                                yield ("dev", key, ("junk", i, j))
                for h in range(len(HOSTILE)):
                    if key[0] == "gen" or h % 6 == i % 6:
                        yield ("dev", key, ("insert", i, h))
            yield ("dev", key, ("wrap", 64))
            if key[0] == "gen":
                size = len(render(lines).encode("utf-8"))
                for b in range(0, size):
                    yield ("dev", key, ("trunc", b))
        for provider in env.PROVIDERS:
            yield ("dev", ("gen", "custom-vtimezone"), ("insert-subdaily", 10, provider))
        if not ctx.quick:
            for name in ("event-tzid", "custom-vtimezone", "freebusy", "alarms"):
                lines = sd[("gen", name)]
                for i in range(len(lines)):
                    for h in range(len(HOSTILE)):
                        for i2 in range(len(lines)):
                            if ":" in lines[i2] and lines[i2].split(":", 1)[0].upper() not in ("BEGIN", "END"):
                                for j in range(0, len(JUNK), 5):
                                    yield ("dev", ("gen", name), ("insert+junk", i, h, i2, j))

    def gen_soup():
        for n in range(0, k + 1):
            for idx in itertools.product(range(len(SOUP)), repeat=n):
                for wrapper in ("bare", "cal", "event"):
                    yield ("soup", wrapper, idx)
        for n in range(0, 3):
            for t in itertools.product(range(256), repeat=n):
                if n == 2 and t[0] not in (10, 13, 32, 58, 59, 66, 34, 92, 255, 0, 239) and t[1] not in (10, 13, 58, 59):
                    continue
                yield ("bytes", t)
        for n in range(0, 4):
            for t in itertools.product(range(len(CHARS)), repeat=n):
                yield ("chars", t)
        # inputs of every length 0..120 (and a few long ones) that consist of blank lines / white space only
        for unit in (10, 13, 32, 9, (13, 10), (10, 32), (13, 10, 9), (32, 13, 10)):
            u = (unit,) if isinstance(unit, int) else unit
            for n in list(range(0, 121)) + [400, 1000]:  # the unfold regex is quadratic in runs of blank lines: 5000 already take seconds (slow, not endless)
                yield ("blank", u, n)

    def gen_iso():
        nmenu = len(GOOD) + len(BAD)
        for provider in env.PROVIDERS:
            for n in range(0, 5):
                for sel in itertools.permutations(range(nmenu), n):
                    nbad = sum(1 for i in sel if i >= len(GOOD))
                    if nbad > 2 or (n == 4 and nbad == 0):
                        continue
                    if n == 4 and (sel[0] + sel[3]) % 3:
                        continue
                    for alarm_pos in ((0, n) if n else (0,)):
                        yield ("iso", provider, sel, alarm_pos)

    ctx.explore("A:deviations", gen_dev, run_case)
    ctx.explore("B:token-soup", gen_soup, run_case)
    ctx.explore("isolation", gen_iso, run_case)

    def gen_long():
        for shape in LONG_SHAPES:
            for r in LONG_L:
                for e in LONG_END:
                    for as_bytes in (False, True):
                        yield ("long", shape, r, e, as_bytes)

    ctx.explore("long-runs-in-every-token-position", gen_long, run_case, limit=5.0)
