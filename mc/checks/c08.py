"""C08 - parameters round-trip with correct quoting, list arity, caseless names.

E-enum: names in several cases (single and pairs) x every string over a 22-symbol alphabet (incl. NBSP, EM SPACE, U+2028, U+FEFF, a non-BMP character) up to length k x list
shapes, on three paths: Parameters alone, inside a content line, on a property of a parsed component.
Oracle: same upper-cased names, same values in the same order, scalar vs. list arity ([x] == x); emitted names upper
case and sorted; every value containing , ; : is inside double quotes and a strict RFC 3.1/3.2 splitter (the "other
conforming parser") recovers exactly the intended values from the emitted text.
Known finding `C08-placeholders`: inside a content line the reader's %XX placeholder mechanism (see C07) changes
backslash pairs / literal %2C.. sequences; tolerated only when the observation equals the defect model's prediction.
"""
import itertools
import os

from mc import env  # noqa: F401
from mc.refmodel import rfc_text as R

from icalendar.parser import Parameters, Contentline
from icalendar.cal import Event, Calendar, Todo
from icalendar.prop import vText

SIGMA = (",", ";", ":", "=", "'", "^", " ", "\\", "%", "2", "C", "a", "é", "n", "’", "\u00a0", "\u2003", "\u2028", "\ufeff", "\U0001F600", "c", "5")
NAMES = ("X-P", "x-p", "Cn", "ALTREP", "a.b-1")
PAIRS = (("X-P", "Cn"), ("ALTREP", "a.b-1"), ("x-p", "ALTREP"), ("Cn", "a.b-1"))
MANY_Q = "|".join(f"v {i}" for i in range(12)) + "|s|" + "|".join(f"w,{i}" for i in range(12))   # 24 values that need quoting around s
MANY_P = "|".join(f"u{i}" for i in range(130)) + "|s"                                               # 130 plain values, then s
SHAPES = ("s", "s|b", "b|s", "s|b|s", "s|b|c|s", "|s", "s|", MANY_Q, MANY_P)
PATHS = ("alone", "line", "component")
_UNIQ = [0]


def strings(alpha, k, kmin=0):
    for n in range(kmin, k + 1):
        for t in itertools.product(alpha, repeat=n):
            yield "".join(t)


def shape_value(shape, s):
    parts = [s if t == "s" else t for t in shape.split("|")]
    return parts[0] if len(parts) == 1 else parts


def norm(v):
    """[x] and x are indistinguishable in the text."""
    if isinstance(v, (list, tuple)):
        v = [str(x) for x in v]
        return v[0] if len(v) == 1 else v
    return str(v)


def fail(cls, case, expected, observed, known=None):
    f = {"cls": cls, "case": case, "expected": expected, "observed": observed, "size": len(repr(case[-1])) + len(repr(case))}
    if known:
        f["known"] = known
    f["unit_test"] = ("import sys; sys.path[:0] = ['/verif', '/repo/src']\nfrom mc.checks import c08\n"
                      f"r = c08.replay({case!r})\nfor f in r['fails']: print(f['cls'], f.get('known'), f['expected'], f['observed'])\n")
    return f


def check_emitted(text, intended, case, fails, what):
    """text: the emitted parameter string `K1=v;K2=v`; intended: {UPPER name: normalised value}."""
    try:
        _n, params, _v = R.parse_line("X;" + text + ":")
    except R.LineError as e:
        fails.append(fail(f"{what}:emitted-text-not-parseable-by-a-conforming-parser", case, intended, f"{text!r}: {e}"))
        return
    names = [k for k, _v, _q in params]
    if names != sorted(intended):
        fails.append(fail(f"{what}:emitted-names-not-upper-sorted", case, sorted(intended), names))
        return
    for k, vals, quoted in params:
        want = intended[k]
        want_l = want if isinstance(want, list) else [want]
        if vals != want_l and [R.rfc6868_decode(v) for v in vals] != want_l:
            fails.append(fail(f"{what}:conforming-parser-splits-differently", case, want_l, vals))
            return
        for v, q in zip(vals, quoted):
            if any(c in v for c in ",;:") and not q:
                fails.append(fail(f"{what}:delimiter-outside-quotes", case, "quoted", text))
                return


def run_case(case):
    kind, path = case[0], case[1]
    if kind == "one":
        _, _, name, shape, s = case
        given = [(name, shape_value(shape, s))]
    else:
        _, _, n1, n2, which, s = case
        given = [(n1, s if which == 0 else "b"), (n2, "b" if which == 0 else s)]
    intended = {k.upper(): norm(v) for k, v in given}
    fails = []
    nontrivial = any(c in s for c in ",;:\\%' ’^") or kind == "two" or "|" in case[3]
    outcome = "ok"
    P = Parameters()
    as_vtext = (len(s) + len(given[0][0])) % 2 == 1
    for k, v in given:
        # in every other case the values are handed over as vText objects (what a parsed TEXT property holds, and what
        # docs/usage does): the same wire form as plain strings - parameter values are never TEXT-escaped
        if as_vtext:
            v = [vText(x) for x in v] if isinstance(v, list) else vText(v)
        P[k] = v
    if path == "alone":
        text = P.to_ical().decode("utf-8")
        check_emitted(text, intended, case, fails, "alone")
        try:
            back = Parameters.from_ical(text)
            obs = {k: norm(v) for k, v in back.items()}
        except ValueError as e:
            obs = f"ValueError: {e}"
        if obs != intended:
            fails.append(fail("alone:roundtrip-differs", case, intended, obs))
        state = ("alone", text)
    elif path == "line":
        line = Contentline.from_parts("X-A", P, vText("v"))
        text = str(line)
        check_emitted(text[len("X-A;"):-len(":v")], intended, case, fails, "line") if text.endswith(":v") else \
            fails.append(fail("line:value-not-at-end", case, "...:v", text))
        try:
            n, pp, v = Contentline(text).parts()
            obs = (n, {k: norm(x) for k, x in pp.items()}, v)
            # splitting is a function of the text: in-place edits of an earlier result must not reach a later split
            for k in list(pp.keys()):
                if isinstance(pp[k], list):
                    pp[k].append("edited")
                else:
                    del pp[k]
            pp["X-EDITED"] = "1"
            n2, pp2, v2 = Contentline("".join(list(text))).parts()
            obs2 = (n2, {k: norm(x) for k, x in pp2.items()}, v2)
            if obs2 != obs:
                fails.append(fail("line:second-split-sees-edits-of-the-first-result", case, obs, obs2))
        except ValueError:
            obs = ("rejected",)
        want = ("X-A", intended, "v")
        if obs != want:
            fails.append(judge(text, obs, want, case, "line"))
            outcome = "line-known" if fails[-1].get("known") else "line-FAIL"
        state = ("line", text, repr(obs))
    elif path.startswith("vtimezone"):
        # a property with parameters inside the observance of a VTIMEZONE the provider has never seen: reading the calendar
        # converts the definition into a time zone object on the side - the parsed tree keeps what the text says
        _UNIQ[0] += 1
        tzid = f"Custom/C08-{os.getpid()}-{_UNIQ[0]}"
        env.use_provider(path.split(":")[1])
        line = str(Contentline.from_parts("TZNAME", P, vText("XST")))
        text = "\r\n".join(["BEGIN:VCALENDAR", "BEGIN:VTIMEZONE", f"TZID:{tzid}", "BEGIN:STANDARD", "DTSTART:19701025T030000",
                             "TZOFFSETFROM:+0200", "TZOFFSETTO:+0100", line, "RRULE:FREQ=YEARLY;BYMONTH=10;BYDAY=-1SU", "END:STANDARD",
                             "END:VTIMEZONE", "BEGIN:VEVENT", f"DTSTART;TZID={tzid}:20240601T100000", "END:VEVENT", "END:VCALENDAR", ""])
        want = ("TZNAME", intended, "XST")
        try:
            back = Calendar.from_ical(text)
            std = back.walk("STANDARD")[0]
            val = std["TZNAME"]
            obs = ("TZNAME", {k: norm(x) for k, x in val.params.items()}, str(val))
            off = back.walk("VEVENT")[0]["DTSTART"].dt.utcoffset()
            if off is None or off.total_seconds() != 3600:
                fails.append(fail("vtimezone:definition-not-used", case, "+01:00 (the only observance)", repr(off)))
        except ValueError:
            obs = ("rejected",)
        if obs != want:
            fails.append(judge(line, obs, want, case, "vtimezone"))
            outcome = "vtimezone-known" if fails[-1].get("known") else "vtimezone-FAIL"
        state = ("vtimezone", path, line, repr(obs))
    else:
        comp = Event() if case[-1][:1] != "a" else Todo()  # lenient and strict container
        comp.add("x-a", "v", parameters=dict(P))
        cal = Calendar()
        cal.add_component(comp)
        data = cal.to_ical()
        text = str(Contentline.from_parts("X-A", P, vText("v")))
        want = ("X-A", intended, "v")
        try:
            back = Calendar.from_ical(data)
            c = back.subcomponents[0]
            if "X-A" in c and len(back.subcomponents) == 1 and list(c.keys()) == ["X-A"]:
                val = c["X-A"]
                obs = ("X-A", {k: norm(x) for k, x in val.params.items()}, str(val))
            elif not c.keys() and c.errors:
                obs = ("rejected",)
            else:
                obs = ("structure", [(x.name, list(x.keys())) for x in back.walk()])
        except ValueError:
            obs = ("rejected",)
        if obs != want:
            fails.append(judge(text, obs, want, case, "component"))
            outcome = "component-known" if fails[-1].get("known") else "component-FAIL"
        state = ("component", text, repr(obs))
    return {"state": state, "trans": 2, "nontrivial": nontrivial, "fails": fails, "outcome": outcome}


def judge(text, obs, want, case, what):
    """A mismatch inside a content line: known iff it is exactly what the placeholder defect model predicts."""
    try:
        n, d, v = R.predict_parts(text)
        pred = (n, {k: norm(x) for k, x in d.items()}, v)
    except R.LineError:
        pred = ("rejected",)
    if R.ph_triggered(text) and pred == obs:
        return fail(f"{what}:roundtrip-differs", case, want, obs, known="C08-placeholders")
    return fail(f"{what}:roundtrip-differs", case, want, obs)


BLOCK = 256


def run_block(case):
    """('blk', start): EVERY Unicode scalar value of one 256-block (no double quote, no control character) inside a value."""
    import unicodedata
    _, start = case
    fails, n, nk, outcomes = [], 0, 0, set()
    for cp in range(start, start + BLOCK):
        if cp > 0x10FFFF or 0xD800 <= cp <= 0xDFFF:
            continue
        c = chr(cp)
        if c == '"' or unicodedata.category(c) == "Cc":
            continue
        for sub in (("one", "alone", "X-P", "s", "a" + c + "b"), ("one", "alone", "X-P", "s|b", c), ("one", "line", "X-P", "s", c + "b"),
                    ("one", "line", "Cn", "b|s", "a" + c), ("one", "component", "X-P", "s", "x" + c + "y")):
            r = run_case(sub)
            n += 1
            outcomes.add(r["outcome"])
            for f in r["fails"]:
                if f.get("known"):
                    nk += 1
                if len(fails) < 6 or not f.get("known"):
                    fails.append(f)
    return {"n": n, "traces": n, "trans": 2 * n, "state": (start, tuple(sorted(outcomes)), nk), "nnontrivial": n, "nontrivial": True,
            "outcome": "block:" + "+".join(sorted(outcomes)), "fails": fails[:12]}


def run_twice(case):
    """One property name on two lines, each occurrence with its own parameter map (shared with C05's harness): the map of an
    occurrence whose VALUE is empty or zero comes back like any other."""
    from mc.checks import c05 as _c05
    return _c05.run_twice(case)


def replay(case):
    if case[0] == "tw":
        return run_twice(case)
    return run_block(case) if case[0] == "blk" else run_case(case)


def run(ctx):
    k = 3 if ctx.quick else 4
    ctx.rule = (f"E-enum: names {NAMES} (each) and pairs {PAIRS} x every string over a 22-symbol alphabet (incl. NBSP, EM SPACE, U+2028, U+FEFF, a non-BMP character) with |s|<={k} "
                f"x shapes {SHAPES} x paths {PATHS} (component path: VEVENT and, for values starting with 'a', strict "
                "VTODO); plus EVERY Unicode scalar value except the double quote and the Cc control characters inside a value (scalar and list, alone / in a line / on a parsed property); parameters on TZNAME inside the observance of a VTIMEZONE with a never-seen TZID (|s|<=2, both providers). non-trivial = the value needs quoting/escaping attention, is a list, or the map has two names.")
    ctx.bounds = {"alphabet": [repr(c) for c in SIGMA], "k": k, "names": list(NAMES), "shapes": list(SHAPES)}
    ctx.assumptions += ["the 'other conforming parser' may or may not apply RFC 6868 caret decoding: both readings are accepted",
                        "values are free of double quotes and control characters (as the statement says)",
                        "a one-element list and a scalar are the same text and are identified before comparison"]

    def gen():
        for s in strings(SIGMA, k):
            for path in PATHS:
                for i, name in enumerate(NAMES):
                    for shape in (SHAPES if i == 0 else SHAPES[:2]):
                        yield ("one", path, name, shape, s)
                for n1, n2 in PAIRS:
                    for which in (0, 1):
                        yield ("two", path, n1, n2, which, s)

    ctx.explore("names x values x shapes x paths", gen, run_case)

    def gen_vtz():
        for s_ in strings(SIGMA, 2):
            for provider in env.PROVIDERS:
                for name, shape in (("LANGUAGE", "s"), ("X-P", "s|b"), ("x-p", "b|s")):
                    yield ("one", f"vtimezone:{provider}", name, shape, s_)

    ctx.explore("parameters inside a custom VTIMEZONE", gen_vtz, run_case)

    def gen_twice():
        for cname in ("VEVENT", "VTODO"):
            for name in ("COMMENT", "X-A", "ATTENDEE", "RESOURCES"):
                for v1 in ("", "0", "first"):
                    for v2 in ("", "second"):
                        for how in ("text", "api"):
                            yield ("tw", cname, name, v1, v2, how)

    ctx.explore("parameter maps of a repeated property", gen_twice, run_twice)

    def gen_all():
        for b in range(0, 0x110000, BLOCK):
            yield ("blk", b)

    ctx.explore("every-scalar-value-in-a-parameter-value", gen_all, run_block)
