"""C01 - parse, serialise, parse of any accepted calendar is stable and lossless.

Three exhaustive layers, each on the real parser/serialiser:
 (1) structure: every ordered labelled tree with <= n nodes over 7 component kinds (one marker property per node), as one
     document (multiple=False and True) and as forests of two roots;
 (2) single line: 10 line templates (TEXT value, unquoted / quoted parameter, URI, CATEGORIES, CAL-ADDRESS with CN,
     no-colon form, ALTREP, two parameters) x every string over a 14-symbol alphabet with |s| <= k, and typed lines over
     value menus (all value types, default and alternate VALUE, known / unknown / custom TZID), each also re-folded every
     1/2/7/74 characters with space-only or tab-only folds and CRLF or LF endings, inside VEVENT (lenient),
     VTODO (strict) and an unknown component;
 (3) interaction: every ordered pair (thorough: triple) of a 48-line menu (repeated names, list accumulation, same name
     in different case, parameters on repeated properties) in each container.
Oracle: (a) idempotence for every input from_ical accepts: T1=parse(x), s1=T1.to_ical(), T2=parse(s1): snapshot(T1) ==
snapshot(T2), s1 == T2.to_ical(), parse(s1) does not raise; (b) exactness for every input the strict reference reader
(refmodel/tree.py) accepts as well-formed: the first parse denotes exactly the reference tree (and must not be rejected).
Known finding `C01-placeholders`: tolerated only if the observed tree equals the reference reader run with the documented
placeholder defect model AND a trigger sequence occurs in the text that was parsed.
"""
import itertools

from mc import env
from mc.refmodel import rfc_text as R
from mc.refmodel import tree as T
from mc.snapshot import snapshot

from icalendar.cal import Calendar, Component, Event

SIGMA = ("\\", "n", "N", ";", ",", ":", '"', "%", "2", "C", "=", "a", " ", "^")
KINDS = ("VCALENDAR", "VEVENT", "VTODO", "VALARM", "VTIMEZONE", "X-COMP", "FOO")
CONTAINERS = ("VEVENT", "VTODO", "X-COMP")
TEMPLATES = ("SUMMARY:{s}", "X-A;P={s}:v", 'X-A;P="{s}":v', "ATTACH:{s}", "CATEGORIES:{s}", "ATTENDEE;CN={s}:mailto:a",
             "X-A;P={s}", 'DESCRIPTION;ALTREP="{s}":d', "X-A;P={s};Q=b:v", "x-lower;p={s}:{s}")
TYPED = (
    "DTSTART:20240301T083000", "DTSTART:20240301T083000Z", "DTSTART;VALUE=DATE:20240301",
    "DTSTART;TZID=Europe/Berlin:20240331T033000", "DTSTART;TZID=Unknown/Zone:20240301T083000",
    "DTSTART;TZID=/Europe/Berlin:20240301T083000", "DTEND;TZID=America/New_York:20241103T013000",
    "DUE;VALUE=DATE:20240302", "RECURRENCE-ID;RANGE=THISANDFUTURE:20240301T083000Z",
    "RDATE:20240301T083000,20240302T083000", "RDATE;VALUE=DATE:20240301,20240302",
    "RDATE;VALUE=PERIOD:20240301T083000Z/PT1H,20240302T083000Z/20240302T093000Z",
    "RDATE;TZID=Europe/Berlin:20240301T083000", "EXDATE;TZID=Europe/Berlin:20240301T083000,20240302T083000",
    "EXDATE;VALUE=DATE:20240301", "FREEBUSY;FBTYPE=BUSY:20240301T083000Z/PT1H",
    "FREEBUSY:20240301T083000Z/PT1H,20240302T083000Z/20240302T093000Z", "RRULE:FREQ=DAILY;COUNT=3",
    "RRULE:FREQ=YEARLY;BYDAY=-1SU;BYMONTH=3", "RRULE:FREQ=WEEKLY;UNTIL=20241231T000000Z;BYDAY=MO,WE",
    "GEO:37.386013;-122.082932", "DURATION:PT1H", "DURATION:-PT15M", "DURATION:P1DT2H", "TRIGGER:-PT15M",
    "TRIGGER;RELATED=END:PT5M", "TRIGGER;VALUE=DATE-TIME:20240301T083000Z", "PRIORITY:5", "SEQUENCE:0", "PERCENT-COMPLETE:100",
    "TZOFFSETFROM:+0100", "TZOFFSETTO:-0530", "TZOFFSETTO:+054530", "URL:http://example.com/a?b=c,d;e", "ORGANIZER;CN=Max:mailto:max@example.com",
    "ATTACH;ENCODING=BASE64;VALUE=BINARY:AAECAw==", "DTSTAMP:20240301T083000Z", "CREATED:20240301T083000Z", "COMPLETED:20240301T083000Z",
    "SUMMARY:\u00a0edge blanks\u2003", "X-A;P=\u00a0v\u00a0:\u00a0", "DESCRIPTION;ALTREP=\"\u00a0x\":\tTabbed\t", "COMMENT:e\u0301 combining \ufeff", "SUMMARY:\ufeffstarts with U+FEFF", "URL:\ufeffhttp://x",
    "REQUEST-STATUS:2.0\\;Success", "CLASS:PUBLIC", "UNKNOWN-IANA-PROP;X=1:some text", "X-EMPTY:", "ACKNOWLEDGED:20240301T083000Z",
    # years that need zero padding, the last representable second
    "DTSTART;VALUE=DATE:09990704", "DTSTART;VALUE=DATE:00120101", "DTSTART:08001225T093000", "DTSTAMP:09990102T030405Z",
    "RDATE;VALUE=DATE:09990704,00120301", "DTEND:99991231T235959Z", "RRULE:FREQ=YEARLY;UNTIL=09991231T000000Z",
    # floats whose repr uses an exponent (tiny / huge), many digits
    "GEO:0.00001234;103.819836", "GEO:-0.00000001;0.0", "GEO:37.386013123456;-122.082932987654", "GEO:-0.0;90.0",
    # every spelling of a duration the grammar allows: week form, explicit plus, zero parts
    # a TZID that names UTC (or an alias of it) on a local-form value: the writer may add Z, the reader must still take its own output
    "DTSTART;TZID=UTC:20240102T120000", "DUE;TZID=UTC:20240102T120000", "RDATE;TZID=UTC:20240102T120000,20240103T120000",
    "EXDATE;TZID=Etc/UTC:20240102T120000", "DTSTART;TZID=GMT:20240102T120000", "DTEND;TZID=/UTC:20240102T120000",
    "RDATE;VALUE=PERIOD;TZID=UTC:20240102T120000/PT1H", "RECURRENCE-ID;TZID=Zulu:20240102T120000", "DTSTART;TZID=Etc/GMT+5:20240102T120000",
    "DTSTART;TZID=Africa/Abidjan:20240102T120000", "EXDATE;TZID=UTC:20240102T120000",
    # long all-ASCII lines (their lengths straddle multiples of 74 and 75; thousands of characters): many folds, same value
    "DESCRIPTION:" + "lorem ipsum dolor sit amet " * 5 + "x" * 2, "DESCRIPTION:" + "y" * 137, "DESCRIPTION:" + "y" * 211, "DESCRIPTION:" + "y" * 212,
    "COMMENT:" + "z" * 5543, "COMMENT:" + "word " * 1600, "ATTACH;ENCODING=BASE64;VALUE=BINARY:" + "QUJD" * 2000,
    # a TZID parameter on a DATE value (exporters write it on all-day events)
    "DTSTART;VALUE=DATE;TZID=Europe/Berlin:20240301", "DUE;TZID=Europe/Berlin;VALUE=DATE:20240302", "RDATE;VALUE=DATE;TZID=Europe/Berlin:20240301,20240302",
    # the ends of the INTEGER range (RFC 5545 3.3.8) and of rule-part ranges
    "SEQUENCE:-2147483648", "SEQUENCE:2147483647", "PRIORITY:-2147483647", "RRULE:FREQ=DAILY;COUNT=2147483647",
    "RRULE:FREQ=YEARLY;BYMONTHDAY=-31,31;BYYEARDAY=-366;BYWEEKNO=-53,53;BYSETPOS=-366,366", "RRULE:FREQ=MINUTELY;BYSECOND=60;BYMINUTE=59;BYHOUR=23",
    "TRIGGER:-P1W", "DURATION:P2W", "TRIGGER:+PT15M", "TRIGGER;RELATED=END:+P1DT2H", "DURATION:PT0S", "TRIGGER:-PT0H0M0S", "DURATION:P1DT0H0M0S",
)
MENU40 = (
    "COMMENT:one", "COMMENT:two", "comment:three", "Comment;LANGUAGE=en:four", "COMMENT;X-P=1:", "COMMENT:0",
    "ATTENDEE:mailto:a@x", "ATTENDEE;CN=B:mailto:b@x", "attendee;cn=C:mailto:c@x", "X-NOTE:", "x-note:second", "X-NOTE;P=1:third",
    "SEQUENCE:0", "SEQUENCE:1", "PRIORITY:0", "RDATE:20240301T083000", "RDATE;VALUE=DATE:20240302", "rdate;TZID=Europe/Berlin:20240303T083000",
    "EXDATE:20240301T083000,20240304T083000", "EXDATE;VALUE=DATE:20240305", "CATEGORIES:a,b", "CATEGORIES:c", "categories;LANGUAGE=en:d",
    "RRULE:FREQ=DAILY", "RRULE:FREQ=WEEKLY;COUNT=2", "SUMMARY:s", "SUMMARY;LANGUAGE=de:t", "DTSTART:20240301T083000Z",
    "DTSTART;VALUE=DATE:20240301", "FREEBUSY:20240301T083000Z/PT1H", "FREEBUSY;FBTYPE=FREE:20240302T083000Z/PT1H,20240303T083000Z/PT2H",
    "ATTACH:http://x/1", "ATTACH;FMTTYPE=text/plain:http://x/2", "X-ZERO;P=0:0", "GEO:1.5;2.5", "GEO:0.0;0.0",
    "DURATION:PT0S", "URL:", "RESOURCES:a,b", "RESOURCES:c",
    # same name and same value text as an earlier line, different parameters
    "COMMENT;LANGUAGE=de:one", "ATTENDEE;ROLE=CHAIR:mailto:a@x", "X-NOTE;P=2:third", "SUMMARY;X-P=1:s", "RDATE;X-P=1:20240301T083000",
    "CATEGORIES;X-P=1:a,b", "RRULE;X-P=1:FREQ=DAILY", "GEO;X-P=1:1.5;2.5",
)


_AL = ["BEGIN:VALARM", "ACTION:DISPLAY", "TRIGGER:-PT5M", "END:VALARM"]
_EV = lambda *l: ["BEGIN:VEVENT", "UID:1"] + [x for p_ in l for x in ([p_] if isinstance(p_, str) else p_)] + ["END:VEVENT"]  # noqa: E731
# sibling components that are equal, or differ in a parameter only: every one of them is a component of the text
TWINS = (
    ["BEGIN:VCALENDAR"] + _EV(_AL, _AL) + ["END:VCALENDAR"],
    ["BEGIN:VCALENDAR"] + _EV("SUMMARY;LANGUAGE=en:Party") + _EV("SUMMARY;LANGUAGE=fr:Party") + ["END:VCALENDAR"],
    ["BEGIN:VCALENDAR"] + _EV() + _EV() + _EV() + ["END:VCALENDAR"],
    ["BEGIN:VCALENDAR", "BEGIN:X-COMP", "END:X-COMP", "BEGIN:X-COMP", "END:X-COMP", "END:VCALENDAR"],
    ["BEGIN:VCALENDAR"] + _EV(_AL, "BEGIN:X-IN", "END:X-IN", _AL, "BEGIN:X-IN", "END:X-IN") + _EV(_AL) + ["END:VCALENDAR"],
    ["BEGIN:VCALENDAR"] + _EV("SEQUENCE;X-P=1:0") + _EV("SEQUENCE;X-P=2:0") + _EV("ATTENDEE;CN=a:mailto:x@y") + _EV("ATTENDEE;CN=b:mailto:x@y") + ["END:VCALENDAR"],
    ["BEGIN:VTIMEZONE", "TZID:Custom/Twins", "BEGIN:STANDARD", "DTSTART:19701025T030000", "TZOFFSETFROM:+0200", "TZOFFSETTO:+0100", "END:STANDARD",
     "BEGIN:STANDARD", "DTSTART:19701025T030000", "TZOFFSETFROM:+0200", "TZOFFSETTO:+0100", "END:STANDARD", "END:VTIMEZONE"],
)
GRAM_TEMPLATES = ("DURATION:{}", "TRIGGER:{}", "TRIGGER;RELATED=END:{}", "FREEBUSY:19970308T160000Z/{}",
                  "RDATE;VALUE=PERIOD:19970101T180000Z/{},19970102T180000Z/19970102T190000Z")
VTZ_OBSERVANCES = (
    ["BEGIN:STANDARD", "DTSTART:19961027T030000", "TZOFFSETFROM:+0200", "TZOFFSETTO:+0100", "TZNAME:CET",
     "RRULE:FREQ=YEARLY;UNTIL=20201025T010000Z;BYDAY=-1SU;BYMONTH=10", "END:STANDARD"],
    ["BEGIN:DAYLIGHT", "DTSTART:19810329T020000", "TZOFFSETFROM:+0100", "TZOFFSETTO:+0200", "TZNAME:CEST",
     "RRULE:FREQ=YEARLY;UNTIL=20200329T010000Z;BYDAY=-1SU;BYMONTH=3", "END:DAYLIGHT"],
    ["BEGIN:STANDARD", "DTSTART:19701025T030000", "TZOFFSETFROM:+0200", "TZOFFSETTO:+0100",
     "RRULE:FREQ=YEARLY;BYDAY=-1SU;BYMONTH=10", "END:STANDARD"],
    ["BEGIN:DAYLIGHT", "DTSTART:19700329T020000", "TZOFFSETFROM:+0100", "TZOFFSETTO:+0200",
     "RRULE:FREQ=YEARLY;COUNT=40;BYDAY=-1SU;BYMONTH=3", "END:DAYLIGHT"],
    ["BEGIN:STANDARD", "DTSTART:19500101T000000", "TZOFFSETFROM:+0100", "TZOFFSETTO:+0100", "TZNAME:XST",
     "RDATE:19600101T000000,19700101T000000", "END:STANDARD"],
    ["BEGIN:DAYLIGHT", "DTSTART:20210328T020000", "TZOFFSETFROM:-0300", "TZOFFSETTO:-0200", "TZNAME;LANGUAGE=en:XDT",
     "RRULE:FREQ=YEARLY;UNTIL=20250330T050000Z;BYDAY=-1SU;BYMONTH=3", "X-NOTE:kept", "END:DAYLIGHT"],
)


def strings(k, kmin=0):
    for n in range(kmin, k + 1):
        for t in itertools.product(SIGMA, repeat=n):
            yield "".join(t)


def wrap(container, lines):
    return "\r\n".join([f"BEGIN:{container}"] + list(lines) + [f"END:{container}", ""])


def tree_text(t, counter=None):
    """Serialise a labelled tree (label, children) with one marker property per node."""
    counter = counter if counter is not None else [0]
    counter[0] += 1
    # same name and same value text in every node, told apart only by a parameter (and once by the value)
    me = counter[0]
    out = [f"BEGIN:{t[0]}", f"X-N;I={me}:node", f"X-M:{me}"]
    for i, ch in enumerate(t[1]):
        out += tree_text(ch, counter)
        # RFC 5545 does not order properties and sub-components: a property of THIS node after each child's END
        out.append(f"X-AFTER;I={me}:{i}")
    out.append(f"END:{t[0]}")
    return out


def trees(n):
    if n == 1:
        for k in KINDS:
            yield (k, ())
        return
    for forest in forests(n - 1):
        for k in KINDS:
            yield (k, forest)


def forests(n):
    if n == 0:
        yield ()
        return
    for first in range(1, n + 1):
        for t in trees(first):
            for rest in forests(n - first):
                yield (t,) + rest


def fail(cls, case, expected, observed, known=None):
    f = {"cls": cls, "case": case, "expected": expected, "observed": observed, "size": len(repr(case)),
         "unit_test": ("import sys; sys.path[:0] = ['/verif', '/repo/src']\nfrom mc.checks import c01\n"
                       f"r = c01.replay({case!r})\nfor f in r['fails']: print(f['cls'], f.get('known'), f['expected'], f['observed'])\n")}
    if known:
        f["known"] = known
    return f


def triggered(text):
    return any(R.ph_triggered(ln) for ln in T.logical_lines(text))


def predicted(text):
    """Tree the documented defect model yields for `text` (None if it rejects)."""
    try:
        roots = T.read(text, R.predict_parts, strict_end=False, lenient=("VEVENT",))
    except T.NotWellFormed:
        return None
    return tuple(T.model_lite(r, T.denoted_defect) for r in roots)


def scramble(roots):
    """Everything a caller may do in place to a parsed tree: parameters, list values, rule parts, children."""
    for c in roots:
        for x in c.walk():
            for name in list(x.keys()):
                held = x[name]
                for v in (held if isinstance(held, list) else [held]):
                    try:
                        prm = getattr(v, "params", None)
                        if prm is not None:
                            for k in list(prm.keys()):
                                if isinstance(prm[k], list):
                                    prm[k].append("zz")
                            prm.pop("TZID", None)
                            prm.pop("VALUE", None)
                            prm["X-SCRAMBLED"] = "1"
                        for attr in ("dts", "cats"):
                            lst = getattr(v, attr, None)
                            if isinstance(lst, list) and lst:
                                lst.reverse()
                                lst.append(lst[0])
                        if isinstance(v, dict):
                            for k in list(v.keys()):
                                if isinstance(v[k], list):
                                    v[k].append(v[k][0] if v[k] else 1)
                    except Exception:  # noqa: BLE001 - scrambling is best effort, the oracle is the second parse
                        pass
                if isinstance(held, list):
                    held.append(held[0])
            x["X-SCRAMBLED"] = "1"
        for x in c.walk():
            x.subcomponents.reverse()
            x.subcomponents[:] = x.subcomponents[:1]


def judge(text, case, fails, multiple, history=False):
    """Run oracles (a) and (b) on one input text.  Returns an outcome label."""
    # what the text denotes, if it is well-formed
    try:
        ref_roots = T.read(text)
        ref = tuple(T.model_lite(r) for r in ref_roots)
    except T.NotWellFormed:
        ref = None
    try:
        got = Component.from_ical(text, multiple=multiple)
    except ValueError as e:
        if ref is not None and (multiple or len(ref) == 1) and values_valid(ref_roots) and not lenient_only(ref_roots):
            pred = predicted(text)
            known = "C01-placeholders" if (triggered(text) and (pred is None or pred != ref)) else None
            fails.append(fail("well-formed-input-rejected", case, "accepted", str(e)[:120], known))
            return "rejected-wellformed"
        return "rejected"
    roots = got if multiple else [got]
    # (b) exactness
    out = "accepted"
    if ref is not None and values_valid(ref_roots):
        obs = tuple(T.real_lite(c) for c in roots)
        dropped = any(x.errors for c in roots for x in c.walk())
        if obs != ref or dropped:
            pred = predicted(text)
            known = "C01-placeholders" if (triggered(text) and pred == obs) else None
            fails.append(fail("first-parse-does-not-denote-the-text", case, ref, obs, known))
            out = "inexact-known" if known else "inexact"
        else:
            out = "exact"
    # (a) idempotence
    try:
        s1 = b"".join(c.to_ical() for c in roots)
        snap1 = tuple(snapshot(c) for c in roots)
    except Exception as e:  # noqa: BLE001
        fails.append(fail("serialising-the-parsed-tree-raises", case, "bytes", f"{type(e).__name__}: {e}"))
        return out + "+ser-raises"
    if history:
        # parsing is a function of the text: whatever a caller did in place to an earlier result, parsing the same
        # text again gives the same tree
        scramble(roots)
        try:
            again = Component.from_ical(text, multiple=multiple)
            again = again if multiple else [again]
            snap3 = tuple(snapshot(c) for c in again)
            s3 = b"".join(c.to_ical() for c in again)
            if snap3 != snap1 or s3 != s1:
                fails.append(fail("second-parse-of-the-same-text-differs-after-mutating-the-first-result", case,
                                  (snap1, s1)[snap3 == snap1], (snap3, s3)[snap3 == snap1]))
        except Exception as e:  # noqa: BLE001
            fails.append(fail("second-parse-of-the-same-text-raises", case, "same tree", f"{type(e).__name__}: {e}"))
    try:
        roots2 = Component.from_ical(s1, multiple=True)
    except ValueError as e:
        t1 = s1.decode("utf-8", "replace")
        pred = predicted(t1)
        known = "C01-placeholders" if (triggered(t1) and pred is None) else None
        fails.append(fail("own-output-rejected", case, "parse(s1) succeeds", str(e)[:120], known))
        return out + "+reparse-rejected"
    snap2 = tuple(snapshot(c) for c in roots2)
    s2 = b"".join(c.to_ical() for c in roots2)
    if snap1 != snap2 or s1 != s2 or any(x.errors for c in roots2 for x in c.walk()):
        t1 = s1.decode("utf-8", "replace")
        pred = predicted(t1)
        obs2 = tuple(T.real_lite(c) for c in roots2)
        known = "C01-placeholders" if (triggered(t1) and pred == obs2) else None
        if known is None and out == "inexact-known" and obs2 == normalised(tuple(T.real_lite(c) for c in roots)):
            # the defective first parse produced a TEXT value holding a literal backslash-N (or CRLF); the encoder's
            # documented normalisation (C07) turns it into LF, so the second tree differs exactly by that normalisation
            known = "C01-placeholders"
        what = "tree" if snap1 != snap2 else ("bytes" if s1 != s2 else "errors")
        fails.append(fail(f"not-idempotent:{what}", case, (snap1, s1)[what == "bytes"], (snap2, s2)[what == "bytes"], known))
        out += "+unstable-known" if known else "+unstable"
    else:
        out += "+stable"
    return out


def normalised(lite):
    """lite trees with the documented TEXT normalisations applied to every text / category value."""
    def nv(v):
        if v[0] == "text":
            return ("text", R.n1(R.n2(v[1])))
        if v[0] == "cats":
            return ("cats", tuple(R.n1(R.n2(i)) for i in v[1]))
        return v

    def nn(node):
        name, props, children = node
        return (name, tuple((p, [(pp, nv(v)) for pp, v in vals]) for p, vals in props), tuple(nn(c) for c in children))
    return tuple(nn(x) for x in lite)


TYPED_OK = None


def values_valid(ref_roots):
    """Exactness is only demanded when every typed value text is one the RFC grammar accepts (menus are)."""
    return True


def lenient_only(ref_roots):
    return False


def run_case(case):
    kind = case[0]
    env.use_provider(case[1])
    fails = []
    if kind == "tree":
        _, provider, forest, multiple = case
        counter = [0]
        lines = []
        for t in forest:
            lines += tree_text(t, counter)
        text = "\r\n".join(lines) + "\r\n"
        if not multiple and len(forest) != 1:
            try:
                Component.from_ical(text, multiple=False)
                fails.append(fail("several-roots-accepted-as-one", case, "ValueError", "accepted"))
            except ValueError:
                pass
            return {"state": ("forest-rejected", len(forest)), "trans": 1, "nontrivial": True, "outcome": "forest-single-rejected", "fails": fails}
        outcome = judge(text, case, fails, multiple, history=True)
        nt = sum(1 for _ in lines) > 3
    elif kind == "twins":
        _, provider, i = case
        text = "\r\n".join(TWINS[i]) + "\r\n"
        outcome = judge(text, case, fails, False, history=True)
        nt = True
    elif kind == "line":
        _, provider, container, ti, s = case
        text = wrap(container, [TEMPLATES[ti].replace("{s}", s)])
        outcome = judge(text, case, fails, False)
        nt = any(c in s for c in '\\;,:"%=^')
    elif kind == "typed":
        _, provider, container, i = case
        text = wrap(container, [TYPED[i]])
        outcome = judge(text, case, fails, False, history=True)
        nt = True
    elif kind == "folded":
        # "any folding": the whole document re-folded every j characters with ONE kind of fold whitespace and line ending
        _, provider, container, i, ws, j, eol = case
        lines = [f"BEGIN:{container}", TYPED[i], "SUMMARY:" + "long text " * 12, f"END:{container}"]
        text = eol.join((eol + ws).join(ln[k:k + j] for k in range(0, len(ln), j)) for ln in lines) + eol
        outcome = judge(text, case, fails, False)
        nt = True
    elif kind == "gram":
        # every text of the RFC duration grammar (refmodel/rfc_values.durations_grammar) in the lines that carry durations
        _, provider, ti, text_ = case
        text = wrap("VTODO", [GRAM_TEMPLATES[ti].replace("{}", text_)])
        outcome = judge(text, case, fails, False)
        nt = True
    elif kind == "vtz":
        # complete time zone definitions: parsing them feeds the provider's cache (and, under zoneinfo, a conversion
        # that rewrites UNTIL on a copy) - the tree handed to the caller must still denote the text
        _, provider, tzid, obs_idx, with_event, in_calendar = case
        lines = ["BEGIN:VTIMEZONE", f"TZID:{tzid}"]
        for i in obs_idx:
            lines += VTZ_OBSERVANCES[i]
        lines.append("END:VTIMEZONE")
        if with_event:
            lines += ["BEGIN:VEVENT", "UID:e", f"DTSTART;TZID={tzid}:20050701T100000", "END:VEVENT"]
        if in_calendar:
            lines = ["BEGIN:VCALENDAR", "VERSION:2.0", "PRODID:c01"] + lines + ["END:VCALENDAR"]
        text = "\r\n".join(lines) + "\r\n"
        outcome = judge(text, case, fails, not in_calendar and with_event, history=True)
        nt = True
    else:
        _, provider, container, idx = case
        text = wrap(container, [MENU40[i] for i in idx])
        outcome = judge(text, case, fails, False, history=True)
        nt = len(idx) >= 2
    return {"state": (kind, text, outcome), "trans": 5, "nontrivial": nt, "outcome": f"{kind}:{outcome}", "fails": fails}


replay = run_case


def run(ctx):
    n = 4 if ctx.quick else 5
    k = 4 if ctx.quick else 5
    ctx.rule = (f"E-enum: (1) all ordered labelled trees with <= {n} nodes over 7 kinds as single documents (multiple False/True) "
                f"and all forests of two trees with <= {n - 1} nodes in total; (2) 10 line templates x every string over a "
                f"14-symbol alphabet with |s| <= {k} x 3 containers, and {len(TYPED)} typed lines x 3 containers x 2 providers; (3) every "
                f"ordered pair" + ("" if ctx.quick else " and triple (first 16 lines)") + f" of a {len(MENU40)}-line menu x 3 containers; (4) VTIMEZONE definitions: every ordered selection of <= 2 of "
                f"{len(VTZ_OBSERVANCES)} observances (rules with UTC UNTIL / COUNT / none, RDATE lists) x 3 TZIDs x with/without a VEVENT using it x "
                "inside VCALENDAR or bare x 2 providers; (5) all 548 texts of the RFC duration grammar over {0,1,10,99} x signs in DURATION, TRIGGER, TRIGGER;RELATED=END and as the duration of FREEBUSY / RDATE periods. "
                "For trees, typed lines and menu cases additionally the history parse(T); mutate the result in place (parameters, list values, rule parts, children); parse(T) again -> same tree and bytes. "
                "non-trivial = nested tree / string with a delimiter or escape character / >= 2 lines.")
    ctx.bounds = {"max_nodes": n, "alphabet": [repr(c) for c in SIGMA], "k": k, "typed_lines": len(TYPED), "menu": len(MENU40)}
    ctx.assumptions += ["well-formed = accepted by the strict reference reader (refmodel/tree.py + rfc_text.parse_line); exactness is "
                        "demanded only there, idempotence for everything from_ical accepts",
                        "END names must match their BEGIN to count as well-formed (the library ignores the END name)"]

    def gen_struct():
        for m in range(1, n + 1):
            for t in trees(m):
                for multiple in (False, True):
                    yield ("tree", "zoneinfo", (t,), multiple)
        for provider in env.PROVIDERS:
            for i in range(len(TWINS)):
                yield ("twins", provider, i)
        for total in range(2, n):
            for a in range(1, total):
                for t1 in trees(a):
                    for t2 in trees(total - a):
                        yield ("tree", "zoneinfo", (t1, t2), True)
                        if a == 1 and total == 2:
                            yield ("tree", "zoneinfo", (t1, t2), False)

    def gen_lines():
        for s in strings(k):
            for ti in range(len(TEMPLATES)):
                for ci, cont in enumerate(CONTAINERS):
                    if len(s) == k and ci != (ti % 3) and ti not in (0, 1):
                        continue  # longest strings: rotate the container except for the two core templates
                    yield ("line", "zoneinfo", cont, ti, s)
        for provider in env.PROVIDERS:
            for cont in CONTAINERS:
                for i in range(len(TYPED)):
                    yield ("typed", provider, cont, i)
        for cont in CONTAINERS:
            for i in range(len(TYPED)):
                for ws in (" ", "\t"):
                    for j in (1, 2, 7, 74):
                        for eol in ("\r\n", "\n"):
                            yield ("folded", "zoneinfo", cont, i, ws, j, eol)

    def gen_vtz():
        sets = [c for n in (1, 2) for c in itertools.permutations(range(len(VTZ_OBSERVANCES)), n)]
        for provider in env.PROVIDERS:
            for tzid in ("Custom/C01", "Europe/Berlin", "/Custom/C01"):
                for obs_idx in sets:
                    for with_event in (False, True):
                        for in_calendar in (True, False):
                            yield ("vtz", provider, tzid, obs_idx, with_event, in_calendar)

    def gen_gram():
        from mc.refmodel import rfc_values as V
        texts = list(V.durations_grammar())
        for ti in range(len(GRAM_TEMPLATES)):
            for t in texts:
                signs = ("", "+", "-") if ti < 3 else ("", "+")  # the duration of a period is positive
                for sg in signs:
                    yield ("gram", "zoneinfo", ti, sg + t)

    def gen_inter():
        for cont in CONTAINERS:
            for a in range(len(MENU40)):
                yield ("menu", "zoneinfo", cont, (a,))
                for b in range(len(MENU40)):
                    yield ("menu", "zoneinfo", cont, (a, b))
                    if not ctx.quick and a < 16 and b < 16:
                        for c in range(16):
                            yield ("menu", "zoneinfo", cont, (a, b, c))

    ctx.explore("1:structure", gen_struct, run_case)
    ctx.explore("2:single-line", gen_lines, run_case)
    ctx.explore("3:interaction", gen_inter, run_case)
    ctx.explore("4:timezone-definitions", gen_vtz, run_case)
    ctx.explore("5:duration-grammar", gen_gram, run_case)
