"""C20 - traversal is complete; equality is an order-insensitive equivalence.

E-enum: every ordered labelled tree with <= n nodes over 7 component kinds (VCALENDAR, VEVENT, VTODO, VTIMEZONE, VALARM,
X-COMP, unknown FOO), plus chains/combs of depth <= 6; nodes carry 0-2 properties from a menu of value classes chosen by
(kind, depth), so same-kind siblings are equal.  Per tree: walk() = reference pre-order; walk(name) for every kind in three
letter cases; three select predicates; events/todos/timezones.  Equality: reflexive; equal under every permutation of
subcomponents and of property insertion order and under re-casing of property names; unequal (both directions) under every
single perturbation (kind, property value / removed / added, child removed / duplicated / replaced by a sibling -> multiset
change); symmetric and equal to the reference on all ordered pairs of trees with <= 3 nodes; False (never raising) against
non-components; deepcopy, pickle (protocols 2..highest) and serialise+parse copies are equal and serialise identically, also for
calendars holding zoneinfo / pytz / VTIMEZONE-defined zones under both providers.
Sibling multisets: every multiset of <= 3 (thorough 4) children from 7 that pairwise share kind and/or UID but differ in
content (summary, RECURRENCE-ID, a nested alarm, missing UID), under 3 parent kinds, at top level and nested: equal in every
order, unequal to every other multiset of the same size.
Look-alike siblings: two children of one kind with the same properties whose own children are any 1-2 of 4 kinds: every
permutation of grandchildren and children is equal, moving a grandchild across is not.
"""
import copy
import itertools
import pickle
from datetime import date, datetime, timedelta, timezone

from mc import env
from icalendar.cal import (Calendar, Event, Todo, Timezone, Alarm, Component, component_factory)
from icalendar.prop import vText, vInt, vDDDTypes, vRecur, vGeo, vCategory, vUri, vCalAddress, vBinary, vBoolean, vFloat
from icalendar.timezone import tzp

PLAIN_CLASSES = {k.upper(): v for k, v in component_factory.items()}
PROTOCOLS = sorted({2, 3, pickle.DEFAULT_PROTOCOL, pickle.HIGHEST_PROTOCOL})
KINDS = ("VCALENDAR", "VEVENT", "VTODO", "VTIMEZONE", "VALARM", "X-COMP", "FOO")
UTC = timezone.utc
from zoneinfo import ZoneInfo  # noqa: E402
BERLIN = ZoneInfo("Europe/Berlin")

# property menu: (name, builder of value, builder of a DIFFERENT value of the same class)
MENU = [
    ("SUMMARY", lambda: "text a", lambda: "text b"),
    ("DTSTART", lambda: datetime(2024, 5, 1, 10, 0, tzinfo=UTC), lambda: datetime(2024, 5, 1, 10, 0, 1, tzinfo=UTC)),
    ("SEQUENCE", lambda: 0, lambda: 1),
    ("RRULE", lambda: vRecur(freq="DAILY", count=3), lambda: vRecur(freq="DAILY", count=4)),
    ("GEO", lambda: (1.5, 2.5), lambda: (1.5, 2.75)),
    ("CATEGORIES", lambda: ["a", "b"], lambda: ["a", "c"]),
    ("URL", lambda: vUri("http://x/1"), lambda: vUri("http://x/2")),
    ("ATTENDEE", lambda: vCalAddress("mailto:a@x"), lambda: vCalAddress("mailto:b@x")),
    ("DURATION", lambda: timedelta(hours=1), lambda: timedelta(hours=2)),
    ("DTEND", lambda: date(2024, 5, 2), lambda: date(2024, 5, 3)),
    ("LOCATION", lambda: "Room; 1, a\\b", lambda: "Room; 1, a\\c"),
    ("EXDATE", lambda: [datetime(2024, 5, 1, 10, 0, tzinfo=UTC)], lambda: [datetime(2024, 5, 2, 10, 0, tzinfo=UTC)]),
    # the same instant written in another zone is a different value (it serialises differently)
    ("RDATE", lambda: [datetime(2024, 5, 1, 10, 0, tzinfo=UTC)], lambda: [datetime(2024, 5, 1, 12, 0, tzinfo=BERLIN)]),
    ("DUE", lambda: datetime(2024, 5, 1, 10, 0, tzinfo=UTC), lambda: datetime(2024, 5, 1, 12, 0, tzinfo=BERLIN)),
]


def trees(n):
    """All ordered trees with exactly n nodes as nested tuples (label, children)."""
    if n == 1:
        for k in KINDS:
            yield (k, ())
        return
    for forest in forests(n - 1):
        for k in KINDS:
            yield (k, forest)


def forests(n):
    """All ordered forests with exactly n nodes."""
    if n == 0:
        yield ()
        return
    for first in range(1, n + 1):
        for t in trees(first):
            for rest in forests(n - first):
                yield (t,) + rest


def shapes_chains():
    for depth in (5, 6):
        for k1, k2 in (("VCALENDAR", "VEVENT"), ("X-COMP", "X-COMP"), ("FOO", "VALARM")):
            t = (k2, ())
            for d in range(depth - 1):
                t = (k1 if d % 2 else k2, (t,))
            yield t
            # comb: every level has an extra leaf
            t = (k2, ())
            for d in range(depth - 1):
                t = (k1, ((k2, ()), t))
            yield t


def props_for(kind, depth):
    i = (KINDS.index(kind) * 2 + depth) % len(MENU)
    cnt = (KINDS.index(kind) + depth) % 3
    return [MENU[(i + j * 5) % len(MENU)] for j in range(cnt)]


def build(t, depth=0, case_fn=None):
    kind, children = t
    cls = PLAIN_CLASSES.get(kind)  # the library's own classes, whatever an application registered later
    if cls is None:
        c = Component()
        c.name = kind
    else:
        c = cls()
    for name, mk, _alt in props_for(kind, depth):
        c.add(case_fn(name) if case_fn else name, mk())
    for ch in children:
        c.add_component(build(ch, depth + 1, case_fn))
    return c


def preorder(t):
    out = [t[0]]
    for ch in t[1]:
        out += preorder(ch)
    return out


def canon(t, depth=0):
    """Reference equality: label + (fixed props by label/depth) + multiset of children."""
    return (t[0], tuple(sorted(canon(ch, depth + 1) for ch in t[1])), depth if props_differ_by_depth(t[0]) else 0)


def props_differ_by_depth(kind):
    return True


def walk_nodes(c):
    out = [c]
    for s in c.subcomponents:
        out += walk_nodes(s)
    return out


def fail(cls, case, expected, observed):
    return {"cls": cls, "case": case, "expected": expected, "observed": observed, "size": len(repr(case)),
            "unit_test": ("import sys; sys.path[:0] = ['/verif', '/repo/src']\nfrom mc.checks import c20\n"
                          f"r = c20.replay({case!r})\nfor f in r['fails']: print(f['cls'], f['expected'], f['observed'])\n")}


def eq(a, b):
    """a == b; the != operator must be its negation (otherwise a description of the disagreement is returned)."""
    try:
        r = a == b
        n = a != b
    except Exception as e:  # noqa: BLE001
        return f"raised {type(e).__name__}"
    if isinstance(r, bool) and n is not (not r):
        return f"== answers {r} but != answers {n}"
    return r


def perturbations(c):
    """(description, function applied to a fresh deep copy) for every single perturbation of tree c."""
    nodes = walk_nodes(c)
    out = []
    for i, node in enumerate(nodes):
        out.append((f"kind@{i}", ("kind", i)))
        for name in list(node.keys()):
            out.append((f"value:{name}@{i}", ("value", i, name)))
            out.append((f"remove:{name}@{i}", ("remove", i, name)))
        out.append((f"add-prop@{i}", ("add", i)))
        for j in range(len(node.subcomponents)):
            out.append((f"drop-child{j}@{i}", ("drop", i, j)))
            out.append((f"dup-child{j}@{i}", ("dup", i, j)))
            for k in range(len(node.subcomponents)):
                if k != j and not (eq(node.subcomponents[j], node.subcomponents[k]) is True):
                    out.append((f"child{j}:=child{k}@{i}", ("replace", i, j, k)))
    return out


def apply_perturbation(c, p):
    d = copy.deepcopy(c)
    node = walk_nodes(d)[p[1]]
    if p[0] == "kind":
        node.name = "VJOURNAL" if node.name != "VJOURNAL" else "VFREEBUSY"
    elif p[0] == "value":
        alt = [m for m in MENU if m[0] == p[2]][0][2]()
        del node[p[2]]
        node.add(p[2], alt)
    elif p[0] == "remove":
        del node[p[2]]
    elif p[0] == "add":
        node.add("X-EXTRA", "extra")
    elif p[0] == "drop":
        del node.subcomponents[p[2]]
    elif p[0] == "dup":
        node.subcomponents.append(copy.deepcopy(node.subcomponents[p[2]]))
    elif p[0] == "replace":
        node.subcomponents[p[2]] = copy.deepcopy(node.subcomponents[p[3]])
    return d


def run_tree(case):
    _, t = case
    fails = []
    trans = 0
    c = build(t)
    nodes = walk_nodes(c)
    # ---- traversal
    got = c.walk()
    trans += 1
    if [id(x) for x in got] != [id(x) for x in nodes] or [x.name for x in got] != preorder(t):
        fails.append(fail("walk-not-preorder", case, preorder(t), [x.name for x in got]))
    for kind in KINDS + ("VJOURNAL",):
        want = [id(x) for x in nodes if x.name == kind]
        for variant in (kind, kind.lower(), kind.capitalize()):
            r = c.walk(variant)
            trans += 1
            if [id(x) for x in r] != want:
                fails.append(fail("walk(name)-differs", case + (variant,), len(want), [x.name for x in r]))
                break
    preds = {"has-summary": lambda x: "SUMMARY" in x, "is-leaf": lambda x: not x.subcomponents, "never": lambda x: False}
    for pn, pf in preds.items():
        r = c.walk(select=pf)
        trans += 1
        if [id(x) for x in r] != [id(x) for x in nodes if pf(x)]:
            fails.append(fail("walk(select)-differs", case + (pn,), sum(1 for x in nodes if pf(x)), len(r)))
        r2 = c.walk("VEVENT", select=pf)
        if [id(x) for x in r2] != [id(x) for x in nodes if x.name == "VEVENT" and pf(x)]:
            fails.append(fail("walk(name,select)-differs", case + (pn,), "filter", len(r2)))
    if isinstance(c, Calendar):
        for attr, kind in (("events", "VEVENT"), ("todos", "VTODO"), ("timezones", "VTIMEZONE")):
            r = getattr(c, attr)
            trans += 1
            if [id(x) for x in r] != [id(x) for x in nodes if x.name == kind]:
                fails.append(fail(f"{attr}-accessor-differs", case, kind, [x.name for x in r]))
    # ---- equality
    if eq(c, c) is not True or eq(c, build(t)) is not True or (c != build(t)) is not False:
        fails.append(fail("not-reflexive", case, True, eq(c, build(t))))
    for other in (None, 1, "", [], 1.5, object()):
        r1, r2 = eq(c, other), eq(other, c)
        trans += 2
        if r1 is not False or r2 is not False:
            fails.append(fail("non-component-comparison", case + (repr(other)[:12],), False, (r1, r2)))
    for other in ({}, {"SUMMARY": "text a"}):
        r1 = eq(c, other)
        if not isinstance(r1, bool):
            fails.append(fail("mapping-comparison-fails", case, "a bool", r1))
    # permutations of subcomponents at every node with 2..4 children; property order; property name case
    for i, node in enumerate(nodes):
        k = len(node.subcomponents)
        if 2 <= k <= 4:
            for perm in itertools.permutations(range(k)):
                d = copy.deepcopy(c)
                dn = walk_nodes(d)[i]
                dn.subcomponents = [dn.subcomponents[j] for j in perm]
                trans += 1
                if eq(c, d) is not True or eq(d, c) is not True:
                    fails.append(fail("subcomponent-order-matters", case + (i, perm), True, (eq(c, d), eq(d, c))))
                    break
    rev = build(t)
    for node in walk_nodes(rev):
        items = list(node.items())
        for k_, _ in items:
            del node[k_]
        for k_, v_ in reversed(items):
            node[k_] = v_
    lower = build(t, case_fn=str.lower)
    mixed = build(t, case_fn=str.capitalize)
    for label, other in (("property-insertion-order", rev), ("property-name-lower", lower), ("property-name-mixed", mixed)):
        trans += 2
        if eq(c, other) is not True or eq(other, c) is not True:
            fails.append(fail(f"{label}-matters", case, True, (eq(c, other), eq(other, c))))
    # single perturbations
    npert = 0
    for desc, p in perturbations(c):
        d = apply_perturbation(c, p)
        npert += 1
        trans += 2
        r1, r2 = eq(c, d), eq(d, c)
        if r1 is not False or r2 is not False:
            fails.append(fail("perturbation-not-distinguished", case + (desc,), False, (r1, r2)))
    # copies
    ical = c.to_ical()
    copies = [("deepcopy", lambda: copy.deepcopy(c))] + [(f"pickle{pr}", (lambda pr=pr: pickle.loads(pickle.dumps(c, pr)))) for pr in PROTOCOLS]
    copies.append(("parse", lambda: Component.from_ical(ical)))
    # the serialisation that keeps insertion order is a serialisation too: its parse is a copy of the whole tree
    copies.append(("parse-unsorted", lambda: Component.from_ical(c.to_ical(sorted=False))))
    for label, mk in copies:
        try:
            d = mk()
        except Exception as e:  # noqa: BLE001
            fails.append(fail(f"copy:{label}-raises", case, "a copy", f"{type(e).__name__}: {e}"))
            continue
        trans += 1
        if eq(c, d) is not True or eq(d, c) is not True:
            fails.append(fail(f"copy:{label}-not-equal", case, True, (eq(c, d), eq(d, c))))
        elif d.to_ical() != ical:
            fails.append(fail(f"copy:{label}-serialises-differently", case, ical, d.to_ical()))
    # the same tree read from text that writes BEGIN/END component names in lower / mixed case (RFC: case-insensitive):
    # equal to the tree built through the API, and walk(name) finds the same nodes
    import re as _re
    for how in (bytes.lower, bytes.title):
        recased = _re.sub(rb"(?m)^(BEGIN|END):([^\r\n]+)", lambda m: m.group(1) + b":" + how(m.group(2)), ical)
        try:
            d = Component.from_ical(recased)
        except Exception as e:  # noqa: BLE001
            fails.append(fail("parse-of-recased-component-names-raises", case + (how.__name__,), "a tree", f"{type(e).__name__}: {e}"))
            continue
        trans += 1
        if eq(c, d) is not True or eq(d, c) is not True:
            fails.append(fail("tree-parsed-from-recased-names-not-equal", case + (how.__name__,), True, (eq(c, d), eq(d, c))))
        for kind in KINDS:
            want_n = sum(1 for x in nodes if x.name == kind)
            for variant in (kind, kind.lower()):
                if len(d.walk(variant)) != want_n:
                    fails.append(fail("walk(name)-on-tree-parsed-from-recased-names", case + (how.__name__, variant), want_n, len(d.walk(variant))))
                    break
    return {"state": ("tree", t), "trans": trans, "nontrivial": len(nodes) >= 2, "fails": fails,
            "outcome": "ok" if not fails else "FAIL", "extra": {"perturbations": npert}}


def run_pairs(case):
    """All ordered pairs (a, b) for one a against every tree b with <= 3 nodes."""
    _, ta, small = case
    fails = []
    a = build(ta)
    ca = canon(ta)
    n = 0
    for tb in small:
        b = build(tb)
        n += 1
        want = ca == canon(tb)
        r1, r2 = eq(a, b), eq(b, a)
        if r1 is not want or r2 is not want:
            fails.append(fail("pair-equality-differs-from-reference-or-asymmetric", ("pair", ta, tb), want, (r1, r2)))
            if len(fails) > 3:
                break
    return {"n": n, "nstates": 1, "nnontrivial": n, "trans": 2 * n, "traces": n, "state": ("pairs", ta), "fails": fails,
            "outcome": "pairs-ok" if not fails else "FAIL"}


# ---------------------------------------------------------------- zones
CUSTOM_CAL = "\r\n".join([
    "BEGIN:VCALENDAR", "VERSION:2.0", "PRODID:c20", "BEGIN:VTIMEZONE", "TZID:Custom/C20", "BEGIN:STANDARD",
    "DTSTART:19701025T030000", "TZOFFSETFROM:+0200", "TZOFFSETTO:+0100", "TZNAME:CST", "RRULE:FREQ=YEARLY;BYMONTH=10;BYDAY=-1SU",
    "END:STANDARD", "BEGIN:DAYLIGHT", "DTSTART:19700329T020000", "TZOFFSETFROM:+0100", "TZOFFSETTO:+0200", "TZNAME:CDT",
    "RRULE:FREQ=YEARLY;BYMONTH=3;BYDAY=-1SU", "END:DAYLIGHT", "END:VTIMEZONE", "BEGIN:VEVENT", "UID:z",
    "DTSTART;TZID=Custom/C20:20240601T100000", "DTEND;TZID=Europe/Berlin:20240601T120000",
    "RDATE;TZID=Custom/C20:20240602T100000,20240603T100000", "END:VEVENT", "END:VCALENDAR", ""])


_UNIQ = [0]


def assembled_calendar(kind):
    """A calendar with a VTIMEZONE of a never-seen id put together through the API from separately read observances (reading
    an observance alone converts nothing), so that the first conversion happens when the COPY is parsed."""
    import os
    from icalendar.cal import Timezone, TimezoneStandard, TimezoneDaylight
    _UNIQ[0] += 1
    tzid = f"Custom/C20-{os.getpid()}-{_UNIQ[0]}"
    until = ";UNTIL=20301027T010000Z" if kind == "assembled-until" else ""
    extra = ["TZNAME;LANGUAGE=en:CST", "COMMENT;X-P=1:c"] if kind == "assembled-params" else ["TZNAME:CST"]
    std = TimezoneStandard.from_ical("\r\n".join(["BEGIN:STANDARD", "DTSTART:19701025T030000", "TZOFFSETFROM:+0200", "TZOFFSETTO:+0100"] + extra +
                                                  [f"RRULE:FREQ=YEARLY{until};BYDAY=-1SU;BYMONTH=10", "END:STANDARD", ""]))
    dst = TimezoneDaylight.from_ical("\r\n".join(["BEGIN:DAYLIGHT", "DTSTART:19700329T020000", "TZOFFSETFROM:+0100", "TZOFFSETTO:+0200", "TZNAME:CDT",
                                                  f"RRULE:FREQ=YEARLY{until.replace('1027', '0331')};BYDAY=-1SU;BYMONTH=3", "RDATE:19690330T020000,19680331T020000",
                                                  "X-LIC-LOCATION:Somewhere", "END:DAYLIGHT", ""]))
    tz = Timezone()
    tz.add("tzid", tzid)
    tz.add_component(std)
    tz.add_component(dst)
    c = Calendar()
    c.add("version", "2.0")
    c.add_component(tz)
    ev = Event()
    ev.add("uid", "z")
    ev.add("summary", "uses the assembled zone by name only")
    ev["DTSTART"] = vDDDTypes(datetime(2024, 6, 1, 10))
    ev["DTSTART"].params["TZID"] = tzid
    c.add_component(ev)
    return c


def run_zone(case):
    _, provider, source = case
    env.use_provider(provider)
    fails = []
    if source.startswith("assembled"):
        c = assembled_calendar(source)
        ical = c.to_ical()
        try:
            d = Calendar.from_ical(ical)
        except Exception as e:  # noqa: BLE001
            return {"state": ("zone", provider, source, "parse-raises"), "trans": 2, "nontrivial": True, "outcome": "FAIL",
                    "fails": [fail("assembled-zone:parse-raises", case, "a copy", f"{type(e).__name__}: {e}")]}
        # compare everything except the event's DTSTART (the copy's is zoned by the definition, the original's only names it)
        for x in (c, d):
            x.walk("VEVENT")[0].pop("DTSTART")
        if eq(c, d) is not True or eq(d, c) is not True:
            fails.append(fail("assembled-zone:parse-copy-not-equal", case, True, (eq(c, d), eq(d, c))))
        if d.to_ical() != c.to_ical():
            fails.append(fail("assembled-zone:parse-copy-serialises-differently", case, c.to_ical()[:400], d.to_ical()[:400]))
        vt = d.walk("VTIMEZONE")[0]
        if [s_.name for s_ in d.walk()] != [s_.name for s_ in c.walk()] or len(vt.subcomponents) != 2:
            fails.append(fail("assembled-zone:walk-differs", case, [s_.name for s_ in c.walk()], [s_.name for s_ in d.walk()]))
        return {"state": ("zone", provider, source), "trans": 4, "nontrivial": True, "fails": fails,
                "outcome": "zone-ok" if not fails else "FAIL"}
    if source == "custom":
        c = Calendar.from_ical(CUSTOM_CAL)
    else:
        c = Calendar()
        ev = Event()
        if source in ("zoneinfo-fold", "dateutil-fold"):
            # the second occurrence of a repeated wall time (fold=1): the text cannot say which occurrence is meant, so the
            # parsed copy holds the first one - equality (same wall clock, same zone) does not depend on that
            if source == "zoneinfo-fold":
                from zoneinfo import ZoneInfo
                tz = ZoneInfo("Europe/Berlin")
            else:
                from dateutil.tz import gettz
                tz = gettz("Europe/Berlin")
            ev.add("dtstart", datetime(2024, 10, 27, 2, 30, fold=1, tzinfo=tz))
        elif source == "zoneinfo":
            from zoneinfo import ZoneInfo
            tz = ZoneInfo("America/New_York")
            ev.add("dtstart", datetime(2024, 6, 1, 10, tzinfo=tz))
        elif source == "pytz":
            import pytz
            ev.add("dtstart", pytz.timezone("America/New_York").localize(datetime(2024, 6, 1, 10)))
        else:
            from dateutil.tz import gettz
            ev.add("dtstart", datetime(2024, 6, 1, 10, tzinfo=gettz("America/New_York")))
        ev.add("rdate", [ev["DTSTART"].dt + timedelta(days=1)])
        c.add_component(ev)
    ical = c.to_ical()
    copies = [("deepcopy", lambda: copy.deepcopy(c))] + [(f"pickle{pr}", (lambda pr=pr: pickle.loads(pickle.dumps(c, pr)))) for pr in PROTOCOLS]
    copies.append(("parse", lambda: Calendar.from_ical(ical)))
    for label, mk in copies:
        try:
            d = mk()
        except Exception as e:  # noqa: BLE001
            f = fail(f"zone-copy:{label.rstrip('012345')}-raises", case, "a copy", f"{type(e).__name__}: {e}")
            if provider == "pytz" and source == "custom" and type(e).__name__ == "UnknownTimeZoneError" and label != "parse":
                f["known"] = "C20-pytz-custom-zone-not-picklable"
            fails.append(f)
            continue
        if eq(c, d) is not True or eq(d, c) is not True:
            fails.append(fail(f"zone-copy:{label}-not-equal", case, True, (eq(c, d), eq(d, c))))
        elif d.to_ical() != ical:
            fails.append(fail(f"zone-copy:{label}-serialises-differently", case, ical, d.to_ical()))
        else:
            a = c.walk("VEVENT")[0]["DTSTART"].dt
            b = d.walk("VEVENT")[0]["DTSTART"].dt
            # (fold survives neither the text nor pickle protocols below 4: the offset is compared for deep copies only there)
            if a.utcoffset() != b.utcoffset() and not (label != "deepcopy" and source.endswith("-fold")):
                fails.append(fail(f"zone-copy:{label}-offset-differs", case, a.utcoffset(), b.utcoffset()))
    return {"state": ("zone", provider, source), "trans": len(copies) + 1, "nontrivial": True, "fails": fails,
            "outcome": "zone-ok" if not any(not f.get("known") for f in fails) else "FAIL"}


# ---------------------------------------------------------------- sibling multisets: same kind, shared keys, different content
def sibling(i):
    """Seven children that share kind and/or UID pairwise but are all different."""
    if i == 5:
        c = Todo()
    else:
        c = Event()
    if i != 4:
        c.add("uid", "2" if i == 3 else "1")
    if i == 2:
        c.add("recurrence-id", datetime(2024, 5, 1, 10, 0, tzinfo=UTC))
    c.add("summary", "b" if i == 1 else "a")
    if i == 6:
        a = Alarm()
        a.add("action", "DISPLAY")
        c.add_component(a)
    return c


SIBLINGS = 7


def family(parent_kind, idx, nested):
    p = {"VCALENDAR": Calendar, "VEVENT": Event, "X-COMP": Component}[parent_kind]()
    if parent_kind == "X-COMP":
        p.name = "X-COMP"
    p.add("uid", "parent")
    for i in idx:
        p.add_component(sibling(i))
    if nested:
        outer = Calendar()
        outer.add("prodid", "c20")
        outer.add_component(p)
        second = Event()
        second.add("uid", "parent")
        outer.add_component(second)
        return outer
    return p


def run_siblings(case):
    """('sib', parent kind, nested?, multiset A): every order of A is equal to A; every other multiset B of the same size is not."""
    _, parent_kind, nested, A = case
    fails = []
    trans = 0
    base = family(parent_kind, A, nested)
    for perm in set(itertools.permutations(A)):
        other = family(parent_kind, perm, nested)
        trans += 2
        r1, r2, r3 = eq(base, other), eq(other, base), (base != other)
        if r1 is not True or r2 is not True or r3 is not False:
            fails.append(fail("sibling-order-matters", ("sib", parent_kind, nested, A, perm), (True, True, False), (r1, r2, r3)))
            break
    for B in itertools.combinations_with_replacement(range(SIBLINGS), len(A)):
        if B == A:
            continue
        other = family(parent_kind, B[::-1], nested)
        trans += 2
        r1, r2 = eq(base, other), eq(other, base)
        if r1 is not False or r2 is not False:
            fails.append(fail("different-sibling-multisets-equal", ("sib", parent_kind, nested, A, B), False, (r1, r2)))
            break
    return {"state": ("sib", parent_kind, nested, A), "trans": trans, "nontrivial": len(A) >= 2, "fails": fails,
            "outcome": "sib-ok" if not fails else "FAIL"}


def run_grand(case):
    """('grand', root kind, child kind, (g1, g2) of child 1, (g3, g4) of child 2): two same-kind children that look alike
    (same properties) and differ only in their own children; permuting grandchildren and children must not matter."""
    _, rk, ck, ga, gb = case
    fails = []

    def tree(order_a, order_b, swap):
        kids = [(ck, tuple((g, ()) for g in order_a)), (ck, tuple((g, ()) for g in order_b))]
        if swap:
            kids.reverse()
        return build((rk, tuple(kids)))
    base = tree(ga, gb, False)
    trans = 0
    for oa in set(itertools.permutations(ga)):
        for ob in set(itertools.permutations(gb)):
            for swap in (False, True):
                other = tree(oa, ob, swap)
                trans += 2
                r1, r2 = eq(base, other), eq(other, base)
                if r1 is not True or r2 is not True:
                    fails.append(fail("grandchild-or-child-order-matters", case + (oa, ob, swap), True, (r1, r2)))
    # moving one grandchild from one child to the other changes the multiset of children: unequal
    if ga and (sorted(ga[1:]) != sorted(ga) or True):
        moved = tree(ga[1:], gb + ga[:1], False)
        same = sorted([tuple(sorted(ga[1:])), tuple(sorted(gb + ga[:1]))]) == sorted([tuple(sorted(ga)), tuple(sorted(gb))])
        r1, r2 = eq(base, moved), eq(moved, base)
        if r1 is not same or r2 is not same:
            fails.append(fail("moved-grandchild-not-distinguished", case, same, (r1, r2)))
    return {"state": ("grand", rk, ck, ga, gb), "trans": trans, "nontrivial": True, "fails": fails,
            "outcome": "grand-ok" if not fails else "FAIL"}


def run_case(case):
    return {"tree": run_tree, "pairs": run_pairs, "zone": run_zone, "sib": run_siblings, "grand": run_grand}[case[0]](case)


def replay(case):
    if case[0] == "pair":
        return run_pairs(("pairs", case[1], [case[2]]))
    if case[0] == "tree":
        return run_tree(case[:2])
    if case[0] == "sib":
        return run_siblings(case[:4])
    if case[0] == "grand":
        return run_grand(case[:5])
    return run_case(case)


def run(ctx):
    n = 4 if ctx.quick else 5
    ctx.rule = (f"E-enum: all ordered labelled trees with <= {n} nodes over 7 kinds (+ chains/combs of depth 5-6); per tree: "
                "walk/walk(name x 3 cases)/walk(select)/accessors vs reference pre-order, reflexivity, non-component "
                "comparisons, all permutations of subcomponents (<=4) at every node, property insertion order and name case, "
                "every single perturbation, deepcopy/pickle(2..5)/parse copies, parse of the serialisation with component names in lower / title case (equal, same walk(name) counts); all ordered pairs of trees with <= 3 nodes "
                "(742^2) vs the reference multiset equality; zone-carrying calendars (zoneinfo, pytz, dateutil, VTIMEZONE-"
                "defined) x both providers; sibling multisets (<= 3/4 of 7 children sharing kind/UID but differing in content) in every order and against every other multiset. non-trivial = tree with >= 2 nodes / every pair.")
    ctx.bounds = {"max_nodes": n, "kinds": KINDS, "pair_nodes": 3}
    ctx.assumptions += ["pickle protocols 0 and 1 are excluded: third-party tz classes with __slots__ (dateutil) cannot be pickled with them at all",
                        "component names set through the API are upper case (lower-case API names excluded)",
                        "comparison of a component with a non-component *mapping* may answer either way but must not raise (see C17)"]
    small = [t for k in (1, 2, 3) for t in trees(k)]

    def gen_trees():
        for k in range(1, n + 1):
            for t in trees(k):
                yield ("tree", t)
        for t in shapes_chains():
            yield ("tree", t)

    def gen_pairs():
        for ta in small:
            yield ("pairs", ta, small)

    def gen_zone():
        for provider in env.PROVIDERS:
            for source in ("custom", "zoneinfo", "pytz", "dateutil", "assembled-plain", "assembled-until", "assembled-params", "zoneinfo-fold"):
                if source == "zoneinfo-fold" and provider != "zoneinfo":
                    continue  # copies must share the tzinfo OBJECT: Python never equates a repeated wall time across different tzinfo objects (PEP 495)
                yield ("zone", provider, source)

    ctx.explore("trees", gen_trees, run_case)
    ctx.explore("pairs<=3-nodes", gen_pairs, run_case, recheck=False)
    ctx.explore("zone-copies", gen_zone, run_case, jobs=4)

    def gen_sib():
        kmax = 3 if ctx.quick else 4
        for parent_kind in ("VCALENDAR", "VEVENT", "X-COMP"):
            for nested in (False, True):
                for k in range(1, kmax + 1):
                    for A in itertools.combinations_with_replacement(range(SIBLINGS), k):
                        yield ("sib", parent_kind, nested, A)

    ctx.explore("sibling-multisets", gen_sib, run_case)

    def gen_grand():
        gk = ("VALARM", "X-COMP", "FOO", "VTODO")
        pairs = [p for n in (1, 2) for p in itertools.product(gk, repeat=n)]
        for rk in ("VCALENDAR", "X-COMP"):
            for ck in ("VEVENT", "FOO"):
                for ga in pairs:
                    for gb in pairs:
                        yield ("grand", rk, ck, ga, gb)

    ctx.explore("look-alike-siblings-with-different-children", gen_grand, run_case)
