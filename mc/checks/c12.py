"""C12 - VTIMEZONE is interpreted per RFC 5545 onset rules, the same in both providers, whatever was parsed before.

(A) E-enum of CONSISTENT definitions: layouts {STANDARD only; STD+DST; DST listed first; two STANDARDs with an offset
    change; STD + DST + double DST; rename / permanent summer time (same offset, new name or kind)} x offsets (whole minutes
    -12:00..+14:00 incl. half/quarter hours, negative DST) x onset kinds {single onset, RDATE list of 3, four further onsets in two RDATE properties of two values, yearly n-th weekday rule
    with ordinal 1/2/-1, none/UNTIL at the last onset/UNTIL one second before the next recurrence/COUNT} x TZNAME {given, absent, identical}.  Each is written as text, parsed with
    Timezone.from_ical, converted with to_tz(TZP(p), lookup_tzid=False) for p in {zoneinfo, pytz} and evaluated at every
    onset -1s/0/+1s up to 2037 and at interval mid-points against refmodel/rfc_tz (latest onset not after the instant;
    onset = local time - TZOFFSETFROM): utcoffset, tzname when given, dst()==0 for STANDARD.
(B) E-hist over the process-wide cache: BFS over histories of parse(calendar(TZID, definition, position of the VTIMEZONE))
    and provider switches; after every parse each DTSTART;TZID of that calendar must have the offset ITS OWN calendar's
    definition assigns.  Known findings (open, architectural) are matched by a cache model predictor.
"""
import itertools
from datetime import datetime, timedelta, timezone

from mc import env
from mc.refmodel import tree as T
from mc.refmodel import rfc_tz as Z

from icalendar.cal import Calendar, Timezone
from icalendar.timezone import tzp, TZP

UTC = timezone.utc
STD_OFFSETS = (-720, -570, -300, 0, 60, 345, 540, 765, 840)  # minutes
DELTAS = (60, 30, -60)
WDN = {"SU": 6, "FR": 4}


def off_text(minutes):
    sign = "-" if minutes < 0 else "+"
    m = abs(minutes)
    return f"{sign}{m // 60:02d}{m % 60:02d}"


def fmt(dt):
    return dt.strftime("%Y%m%dT%H%M%S")


class Def:
    """Abstract definition: list of observance specs -> text lines + reference observances."""

    def __init__(self, tzid="Custom/C12"):
        self.tzid = tzid
        self.subs = []  # (kind, from_min, to_min, tzname|None, dtstart, extra lines, onsets_local)

    def add(self, kind, frm, to, name, onsets, rule=None, rdate_lines=1):
        lines = [f"BEGIN:{kind}", f"DTSTART:{fmt(onsets[0])}", f"TZOFFSETFROM:{off_text(frm)}", f"TZOFFSETTO:{off_text(to)}"]
        if name is not None:
            lines.append(f"TZNAME:{name}")
        if rule:
            lines.append("RRULE:" + rule)
        elif len(onsets) > 1 and rdate_lines == 1:
            lines.append("RDATE:" + ",".join(fmt(o) for o in onsets[1:]))
        elif len(onsets) > 1:  # the further onsets spread over several RDATE properties, each with several values
            rest = onsets[1:]
            per = -(-len(rest) // rdate_lines)
            for i in range(0, len(rest), per):
                lines.append("RDATE:" + ",".join(fmt(o) for o in rest[i:i + per]))
        lines.append(f"END:{kind}")
        self.subs.append((kind, frm, to, name, lines, onsets))

    decor = None  # None | "xprop" | "param": harmless additions that real-world exporters write

    def text(self, order=None):
        subs = self.subs if order is None else [self.subs[i] for i in order]
        tzid_text = self.tzid.replace("\\", "\\\\").replace(";", "\\;").replace(",", "\\,")  # TZID is a TEXT value
        out = ["BEGIN:VTIMEZONE", f"TZID:{tzid_text}"]
        if self.decor == "xprop":
            out.append("X-LIC-LOCATION:Custom/C12")
        for s in subs:
            lines = list(s[4])
            if self.decor == "param":
                lines = [ln.replace("TZNAME:", "TZNAME;LANGUAGE=en:") if ln.startswith("TZNAME:") else ln for ln in lines]
                lines.insert(1, "COMMENT;X-P=1:decorated")
            out += lines
        out.append("END:VTIMEZONE")
        return out

    def observances(self):
        return [Z.Observance(k, timedelta(minutes=f), timedelta(minutes=t), n, ons) for k, f, t, n, _l, ons in self.subs]


def rule_onsets(start_year, month, n, wd, hour, count=None, until_year=None, horizon=2037):
    first = Z.nth_weekday(start_year, month, n, WDN[wd])
    dtstart = datetime(first.year, first.month, first.day, hour)
    until = None
    if until_year is not None:
        u = Z.nth_weekday(until_year, month, n, WDN[wd])
        until = datetime(u.year, u.month, u.day, hour)
    return Z.yearly_rule_onsets(dtstart, month, n, WDN[wd], until=until, count=count, horizon=horizon)


def build(case):
    """case -> Def (consistent by construction)."""
    kind = case[1]
    d = Def()
    if kind == "std-only":
        _, _, std, named = case
        d.add("STANDARD", std, std, "SST" if named else None, [datetime(1970, 1, 1)])
    elif kind == "dst-only":
        _, _, std, named = case
        d.add("DAYLIGHT", std, std + 60, "DDT" if named else None, [datetime(1970, 1, 1)])
    elif kind in ("std+dst", "dst-first", "dst-last"):
        _, _, std, delta, ordn, months, wd, bound, names = case
        dst = std + delta
        m1, m2 = months
        count = 5 if bound == "count" else None
        uy = 1990 if bound in ("until", "until-late") else None
        on_d = rule_onsets(1986, m1, ordn, wd, 2, count=count, until_year=uy)
        on_s = rule_onsets(1986, m2, ordn, wd, 3, count=count, until_year=uy)
        n1, n2 = {"given": ("XST", "XDT"), "absent": (None, None), "same": ("XT", "XT")}[names]

        def rule(month, ons, frm):
            r = "FREQ=YEARLY"  # parts in the order the library writes them (the intact-definition oracle compares texts)
            if bound == "count":
                r += ";COUNT=5"
            elif bound == "until":
                r += ";UNTIL=" + fmt(ons[-1] - timedelta(minutes=frm)) + "Z"
            elif bound == "until-late":
                # the latest UNTIL that still excludes the next recurrence: one second before it (in UTC)
                nxt = rule_onsets(1986, month, ordn, wd, ons[0].hour, until_year=uy + 1)[-1]
                r += ";UNTIL=" + fmt(nxt - timedelta(minutes=frm) - timedelta(seconds=1)) + "Z"
            return r + f";BYDAY={ordn}{wd};BYMONTH={month}"
        d.add("STANDARD", std, std, n1, [datetime(1980, 1, 1)])
        d.add("DAYLIGHT", std, dst, n2, on_d, rule(m1, on_d, std))
        d.add("STANDARD", dst, std, n1, on_s, rule(m2, on_s, dst))
        if kind == "dst-first":
            d.subs = [d.subs[1], d.subs[2], d.subs[0]]
        elif kind == "dst-last":
            d.subs = [d.subs[0], d.subs[2], d.subs[1]]
    elif kind == "early-rule":
        # rules that start long before 1900 (Exchange writes DTSTART:1601...) or shortly before it with a COUNT
        _, _, std, delta, start_year, bound = case
        dst = std + delta
        count = 10 if bound == "count" else None
        on_d = rule_onsets(start_year, 3, -1, "SU", 2, count=count)
        on_s = rule_onsets(start_year, 10, -1, "SU", 3, count=count)
        r = "FREQ=YEARLY" + (";COUNT=10" if count else "")
        d.add("STANDARD", std, std, "EST0", [datetime(start_year, 1, 1)])
        d.add("DAYLIGHT", std, dst, "EDT1", on_d, r + ";BYDAY=-1SU;BYMONTH=3")
        d.add("STANDARD", dst, std, "EST1", on_s, r + ";BYDAY=-1SU;BYMONTH=10")
    elif kind in ("rdate", "rdate-lines", "rdate-unsorted"):
        _, _, std, delta, names = case
        dst = std + delta
        n1, n2 = {"given": ("XST", "XDT"), "absent": (None, None), "same": ("XT", "XT")}[names]
        years = (2001, 2002, 2004) if kind == "rdate" else (2001, 2002, 2004, 2005, 2007)
        on_d = [datetime(y, 3, 20 + y % 5, 2) for y in years]
        on_s = [datetime(y, 10, 10 + y % 7, 3) for y in years]
        nl = 1 if kind == "rdate" else 2
        if kind == "rdate-unsorted":
            # every RDATE is an onset, wherever it stands: DTSTART is not the earliest one and the lists are not in order
            on_d = [on_d[i] for i in (2, 4, 0, 1, 3)]
            on_s = [on_s[i] for i in (3, 0, 4, 2, 1)]
        d.add("STANDARD", std, std, n1, [datetime(2000, 1, 1)])
        d.add("DAYLIGHT", std, dst, n2, on_d, rdate_lines=nl)
        d.add("STANDARD", dst, std, n1, on_s, rdate_lines=nl)
    elif kind == "two-std":
        _, _, o1, o2, named = case
        d.add("STANDARD", o1, o1, "AST" if named else None, [datetime(1990, 1, 1)])
        d.add("STANDARD", o1, o2, "BST" if named else None, [datetime(2005, 6, 15, 12)])
    elif kind == "double":
        _, _, std, names = case
        dst, ddst = std + 60, std + 120
        n = {"given": ("XST", "XDT", "XDDT"), "absent": (None, None, None)}[names]
        o1 = rule_onsets(1995, 3, -1, "SU", 2)
        o2 = rule_onsets(1995, 6, 1, "SU", 2)
        o3 = rule_onsets(1995, 10, -1, "SU", 3)
        d.add("STANDARD", std, std, n[0], [datetime(1990, 1, 1)])
        d.add("DAYLIGHT", std, dst, n[1], o1, "FREQ=YEARLY;BYDAY=-1SU;BYMONTH=3")
        d.add("DAYLIGHT", dst, ddst, n[2], o2, "FREQ=YEARLY;BYDAY=1SU;BYMONTH=6")
        d.add("STANDARD", ddst, std, n[0], o3, "FREQ=YEARLY;BYDAY=-1SU;BYMONTH=10")
    elif kind == "rename":
        _, _, std, variant = case
        dst = std + 60
        d.add("STANDARD", std, std, "OLD", [datetime(1990, 1, 1)])
        if variant == "rename":
            d.add("STANDARD", std, std, "NEW", [datetime(2010, 5, 5, 12)])
        else:  # permanent summer time: DST for some years, then a STANDARD observance at the DST offset
            on_d = rule_onsets(2000, 3, -1, "SU", 2, count=4)
            on_s = rule_onsets(2000, 10, -1, "SU", 3, count=3)
            d.add("DAYLIGHT", std, dst, "SUM", on_d, "FREQ=YEARLY;COUNT=4;BYDAY=-1SU;BYMONTH=3")
            d.add("STANDARD", dst, std, "OLD", on_s, "FREQ=YEARLY;COUNT=3;BYDAY=-1SU;BYMONTH=10")
            d.add("STANDARD", dst, dst, "PERM", [datetime(2003, 9, 1, 12)])
    else:
        raise AssertionError(case)
    return d


def eval_points(obs, horizon=datetime(2037, 12, 31)):
    ons = [o for o in Z.all_onsets_utc(obs) if o < horizon]
    pts = set()
    for o in ons:
        for dlt in (-1, 0, 1):
            pts.add(o + timedelta(seconds=dlt))
    for a, b in zip(ons, ons[1:]):
        pts.add((a + (b - a) / 2).replace(microsecond=0))
    if ons:
        pts.add(ons[-1] + timedelta(days=200))
    first = ons[0] if ons else horizon
    return sorted(p for p in pts if first <= p < horizon)


def period_span(obs):
    """(wall before, offset before, wall after, offset after) around the first onset at which the offset changes and that
    has no other onset within three days; None if the definition has no such onset."""
    ons = sorted((o - ob.offset_from, ob, o) for ob in obs for o in ob.onsets_local)
    for i, (utc_t, ob, local) in enumerate(ons):
        if i == 0 or ob.offset_from == ob.offset_to:
            continue
        prev_ok = utc_t - ons[i - 1][0] > timedelta(days=3)
        next_ok = i + 1 >= len(ons) or ons[i + 1][0] - utc_t > timedelta(days=3)
        if prev_ok and next_ok and ons[i - 1][1].offset_to == ob.offset_from:
            return (local - timedelta(days=2), ob.offset_from, local + timedelta(days=2), ob.offset_to)
    return None


def fail(cls, case, expected, observed, known=None):
    f = {"cls": cls, "case": case, "expected": expected, "observed": observed, "size": len(repr(case)),
         "unit_test": ("import sys; sys.path[:0] = ['/verif', '/repo/src']\nfrom mc.checks import c12\n"
                       f"r = c12.replay({case!r})\nfor f in r['fails']: print(f['cls'], f.get('known'), f['expected'], f['observed'])\n")}
    if known:
        f["known"] = known
    return f


def run_def(case):
    fails = []
    decor = None
    if case[1] in ("decor-xprop", "decor-param", "decor-tzid"):
        decor = case[1].split("-")[1]
        case_inner = ("def",) + tuple(case[2])
    else:
        case_inner = case
    d = build(case_inner)
    d.decor = decor
    if decor == "tzid":  # an Exchange-style id: escaped as TEXT in the TZID property, quoted as a parameter
        d.tzid = "(UTC+01:00) Amsterdam, Berlin; Bern"
    case_for_matchers = case_inner
    obs = d.observances()
    text = "\r\n".join(d.text()) + "\r\n"
    pts = eval_points(obs)
    results = {}
    trans = 0
    for provider in env.PROVIDERS:
        env.use_provider(provider)
        try:
            comp = Timezone.from_ical(text)
            denoted = T.model_lite(T.read(text)[0])
            parsed = T.real_lite(comp)
            tz = comp.to_tz(TZP(provider), lookup_tzid=False)
            after = T.real_lite(comp)
            trans += 2
            # converting (or caching while parsing) must leave the definition itself as the text wrote it
            if parsed != denoted:
                fails.append(fail(f"{provider}:parsed-definition-does-not-denote-the-text", case, denoted, parsed))
            elif after != denoted:
                fails.append(fail(f"{provider}:conversion-changes-the-definition", case, denoted, after))
        except Exception as e:  # noqa: BLE001
            fails.append(fail(f"{provider}:conversion-raises", case, "a tzinfo", f"{type(e).__name__}: {str(e)[:100]}",
                              known=known_conversion(provider, case, e)))
            results[provider] = None
            continue
        # date-times that REFERENCE the TZID from inside a calendar: DTSTART / DTEND and an explicit-end PERIOD written with
        # the same wall clocks two days before and after an onset must carry the offsets of their own observances
        span = period_span(obs)
        if span is not None:
            w1, off1, w2, off2 = span
            ptz = f'"{d.tzid}"' if any(ch in d.tzid for ch in ",;: ") else d.tzid
            ctext = "\r\n".join(["BEGIN:VCALENDAR", "VERSION:2.0", "PRODID:c12"] + d.text() + [
                "BEGIN:VEVENT", "UID:p", f"DTSTART;TZID={ptz}:{fmt(w1)}", f"DTEND;TZID={ptz}:{fmt(w2)}",
                f"RDATE;VALUE=PERIOD;TZID={ptz}:{fmt(w1)}/{fmt(w2)}", "END:VEVENT", "END:VCALENDAR", ""])
            try:
                cal = Calendar.from_ical(ctext)
                ev = cal.walk("VEVENT")[0]
                per = ev["RDATE"].dts[0].dt
                got_offs = {"DTSTART": ev["DTSTART"].dt.utcoffset(), "DTEND": ev["DTEND"].dt.utcoffset(),
                            "PERIOD.start": per[0].utcoffset(), "PERIOD.end": per[1].utcoffset()}
                want_offs = {"DTSTART": off1, "DTEND": off2, "PERIOD.start": off1, "PERIOD.end": off2}
                trans += 1
                if got_offs != want_offs and not any(f["cls"].endswith("interpretation-differs") for f in fails):
                    wrong = sorted(k for k in want_offs if got_offs[k] != want_offs[k])
                    fails.append(fail(f"{provider}:referencing-values-differ:{','.join(wrong)}", case, {k: str(v) for k, v in want_offs.items()},
                                      {k: str(v) for k, v in got_offs.items()},
                                      known=known_interpretation(provider, case_for_matchers, d, obs, pts, tz)))
            except Exception as e:  # noqa: BLE001
                fails.append(fail(f"{provider}:referencing-calendar-raises", case, "a calendar", f"{type(e).__name__}: {str(e)[:100]}"))
        res = []
        bad = None
        for t in pts:
            ob = Z.in_force(obs, t)
            try:
                dt = t.replace(tzinfo=UTC).astimezone(tz)
                got = (dt.utcoffset(), dt.tzname(), dt.dst())
            except Exception as e:  # noqa: BLE001
                got = (f"raised {type(e).__name__}", None, None)
            want_off = ob.offset_to
            ok = got[0] == want_off
            if ok and ob.tzname is not None and got[1] != ob.tzname:
                ok = False
            if ok and ob.kind == "STANDARD" and got[2] != timedelta(0):
                ok = False
            res.append(got[0])
            if not ok and bad is None:
                bad = (str(t), (want_off, ob.tzname, "dst=0" if ob.kind == "STANDARD" else "dst any"), got)
        trans += len(pts)
        results[provider] = res
        if bad:
            fails.append(fail(f"{provider}:interpretation-differs", case, bad[1], (bad[0],) + bad[2],
                              known=known_interpretation(provider, case_for_matchers, d, obs, pts, tz)))
    if results.get("zoneinfo") is not None and results.get("pytz") is not None and results["zoneinfo"] != results["pytz"] \
            and not any(f["cls"].endswith("interpretation-differs") for f in fails):
        fails.append(fail("providers-disagree", case, "same offsets", "different offsets"))
    ok = not any(not f.get("known") for f in fails)
    return {"state": (case, tuple(map(repr, results.get("zoneinfo") or ()))[:50]), "trans": trans, "nontrivial": len(obs) > 1,
            "outcome": "ok" if not fails else ("known" if ok else "FAIL"), "fails": fails, "extra": {"instants": len(pts)}}


def known_conversion(provider, case, exc):
    return None


def known_interpretation(provider, case, d, obs, pts, tz):
    """Signature matchers for the open interpretation findings (none tolerated unless listed in KNOWN_FINDINGS.txt)."""
    names = [s[3] for s in d.subs]
    # pytz: the DST flag is looked up by TZNAME, so observances sharing a name share one flag
    if provider == "pytz" and len(set(names)) < len(names) and None not in names:
        by = {}
        for s in d.subs:
            by.setdefault(s[3], set()).add(s[0])
        if any(len(k) > 1 for k in by.values()):
            # only dst()/is-standard may be wrong; offsets and names must be right
            for t in pts:
                ob = Z.in_force(obs, t)
                dt = t.replace(tzinfo=UTC).astimezone(tz)
                if dt.utcoffset() != ob.offset_to or dt.tzname() != ob.tzname:
                    return None
            return "C12-pytz-dst-flag-by-tzname"
    if provider == "zoneinfo":
        # dateutil tzical zone: only definitions with negative DST, three observances per year or a change of the standard
        # offset, and only within W = max|utc offset| + max|delta| of an onset; the interior of every interval must be right
        layout = case[1]
        neg = layout in ("std+dst", "dst-first", "dst-last", "rdate", "rdate-lines", "rdate-unsorted") and case[3] < 0
        if not (neg or layout in ("double", "two-std") or (layout == "rename")):
            return None
        offs = [abs(s[1]) for s in d.subs] + [abs(s[2]) for s in d.subs]
        w = timedelta(minutes=max(offs) + max(abs(s[2] - s[1]) for s in d.subs))
        ons = Z.all_onsets_utc(obs)
        import bisect
        for t in pts:
            ob = Z.in_force(obs, t)
            try:
                dt = t.replace(tzinfo=UTC).astimezone(tz)
                good = dt.utcoffset() == ob.offset_to and (ob.tzname is None or dt.tzname() == ob.tzname) and \
                    (ob.kind != "STANDARD" or dt.dst() == timedelta(0))
            except Exception:  # noqa: BLE001
                return None
            if good:
                continue
            i = bisect.bisect_left(ons, t)
            if not any(abs(t - ons[j]) <= w for j in (i - 1, i) if 0 <= j < len(ons)):
                return None
        return "C12-dateutil-near-onset"
    return None


# ------------------------------------------------------------------ (B) histories over the process-wide cache
D1 = [("STANDARD", 60, 60, "AAA", [datetime(1970, 1, 1)])]
D2 = [("STANDARD", -300, -300, "BBB", [datetime(1970, 1, 1)])]
DEFS = {"d1": 60, "d2": -300}
TZIDS = ("Custom/A", "/Custom/A", "Custom/B")
POSITIONS = ("before", "after", "between")
OPS = [("parse", tzid, dname, pos) for tzid in TZIDS for dname in DEFS for pos in POSITIONS] + [("switch",)] + [
    ("lookup", tzid) for tzid in TZIDS]  # asking the provider for an id (known or not yet known) changes nothing


def cal_text(tzid, dname, pos):
    off = DEFS[dname]
    vt = ["BEGIN:VTIMEZONE", f"TZID:{tzid}", "BEGIN:STANDARD", "DTSTART:19700101T000000", f"TZOFFSETFROM:{off_text(off)}",
          f"TZOFFSETTO:{off_text(off)}", f"TZNAME:{dname.upper()}", "END:STANDARD", "END:VTIMEZONE"]
    ev1 = ["BEGIN:VEVENT", "UID:1", f"DTSTART;TZID={tzid}:20240601T120000", "END:VEVENT"]
    ev2 = ["BEGIN:VEVENT", "UID:2", f"DTSTART;TZID={tzid}:20241201T120000", "END:VEVENT"]
    body = {"before": vt + ev1 + ev2, "after": ev1 + ev2 + vt, "between": ev1 + vt + ev2}[pos]
    return "\r\n".join(["BEGIN:VCALENDAR", "VERSION:2.0", "PRODID:c12"] + body + ["END:VCALENDAR", ""])


def run_history(case):
    """Replay a history from a fresh provider state; judge only the LAST operation (prefixes are other cases)."""
    _, hist = case
    env.use_provider("zoneinfo")
    provider = "zoneinfo"
    cache = {}  # model of the process-wide cache: clean id -> offset minutes
    fails = []
    trans = 0
    obs_all = []
    for i, op in enumerate(hist):
        op = OPS[op]
        last = i == len(hist) - 1
        if op[0] == "switch":
            provider = "pytz" if provider == "zoneinfo" else "zoneinfo"
            env.use_provider(provider)
            cache = {}
            trans += 1
            continue
        if op[0] == "lookup":
            trans += 1
            try:
                tz = tzp.timezone(op[1])
                off = None if tz is None else int(datetime(2024, 6, 1, 12, tzinfo=UTC).astimezone(tz).utcoffset().total_seconds() // 60)
            except Exception as e:  # noqa: BLE001
                off = f"raised {type(e).__name__}"
            obs_all.append(("lookup", off))
            if last and off != cache.get(op[1].strip("/")):
                fails.append(fail("lookup-differs-from-what-was-defined", case, cache.get(op[1].strip("/")), off))
            continue
        _, tzid, dname, pos = op
        text = cal_text(tzid, dname, pos)
        trans += 1
        try:
            cal = Calendar.from_ical(text)
        except Exception as e:  # noqa: BLE001
            if last:
                fails.append(fail("parse-raises", case, "a calendar", f"{type(e).__name__}: {e}"))
            continue
        got = []
        for ev in cal.walk("VEVENT"):
            dt = ev["DTSTART"].dt
            off = dt.utcoffset()
            got.append(None if off is None else int(off.total_seconds() // 60))
        want = [DEFS[dname], DEFS[dname]]
        # cache model (the documented behaviour of the open finding): first definition of a clean id wins for the process;
        # an event line that precedes the VTIMEZONE is decoded before the definition is known
        clean = tzid.strip("/")
        pred = []
        seen_vt = False
        order = {"before": ["vt", "e", "e"], "after": ["e", "e", "vt"], "between": ["e", "vt", "e"]}[pos]
        for what in order:
            if what == "vt":
                cache.setdefault(clean, DEFS[dname])
                seen_vt = True
            else:
                pred.append(cache.get(clean))
        del seen_vt
        obs_all.append(tuple(got))
        if last and got != want:
            known = None
            if got == pred:
                known = "C12-forward-reference" if None in got and cache.get(clean) == DEFS[dname] else "C12-cache-first-definition-wins"
            fails.append(fail("offset-not-from-own-definition", case, want, got, known))
    ok = not any(not f.get("known") for f in fails)
    return {"state": ("hist", provider, tuple(sorted(cache.items())), tuple(obs_all[-1:])), "trans": trans, "nontrivial": len(hist) >= 2,
            "outcome": "hist-ok" if not fails else ("hist-known" if ok else "FAIL"), "fails": fails}


def run_case(case):
    return run_history(case) if case[0] == "hist" else run_def(case)


replay = run_case


def definitions(quick):
    for std in STD_OFFSETS:
        for named in (True, False):
            yield ("def", "std-only", std, named)
            yield ("def", "dst-only", std, named)
    i = 0
    for kind in ("std+dst", "dst-first", "dst-last"):
        for std in STD_OFFSETS:
            for delta in DELTAS:
                for ordn in (1, 2, -1):
                    for months in ((3, 10), (4, 9)):
                        for wd in ("SU", "FR"):
                            for bound in ("none", "until", "count", "until-late"):
                                for names in ("given", "absent", "same"):
                                    i += 1
                                    if quick and i % 2:
                                        continue
                                    yield ("def", kind, std, delta, ordn, months, wd, bound, names)
    for std in (0, -300, 330):
        for start_year, bound in ((1601, "none"), (1895, "count"), (1850, "none"), (1899, "count")):
            yield ("def", "early-rule", std, 60, start_year, bound)
    for std in STD_OFFSETS:
        for delta in DELTAS:
            for names in ("given", "absent", "same"):
                yield ("def", "rdate", std, delta, names)
                yield ("def", "rdate-lines", std, delta, names)
                yield ("def", "rdate-unsorted", std, delta, names)
    # the same definitions with additions exporters commonly write (an X- property, a LANGUAGE parameter, a COMMENT)
    for std in STD_OFFSETS:
        for delta in DELTAS:
            for bound in ("none", "until", "count"):
                for decor in ("decor-xprop", "decor-param", "decor-tzid"):
                    yield ("def", decor, ("std+dst", std, delta, -1, (3, 10), "SU", bound, "given"))
    for o1, o2 in itertools.permutations(STD_OFFSETS, 2):
        for named in (True, False):
            yield ("def", "two-std", o1, o2, named)
    for std in STD_OFFSETS:
        for names in ("given", "absent"):
            yield ("def", "double", std, names)
        for variant in ("rename", "permanent"):
            yield ("def", "rename", std, variant)


def run(ctx):
    depth = 2 if ctx.quick else 3
    ctx.rule = ("(A) E-enum of consistent VTIMEZONE definitions over 8 layouts x 9 standard offsets x 3 DST deltas x rule ordinals "
                "{1,2,-1} x 2 month pairs x {SU,FR} x {no bound, UNTIL, COUNT} x TZNAME {given, absent, identical}" +
                (" (quick: every 2nd of the rule product)" if ctx.quick else "") + ", each converted under both providers and evaluated "
                f"at every onset -1s/0/+1s up to 2037 and mid-points; (B) BFS to depth {depth} over {len(OPS)} operations "
                "(parse of a calendar with TZID x definition x VTIMEZONE position; provider switch; provider lookup of an id). non-trivial = >= 2 observances / "
                "history of length >= 2.")
    ctx.bounds = {"offsets_min": STD_OFFSETS, "deltas_min": DELTAS, "history_depth": depth, "operations": len(OPS)}
    ctx.assumptions += ["only consistent definitions (TZOFFSETFROM = offset in force before the onset, onsets >= 48h apart, DTSTART "
                        "synchronised with its rule); instants before the first onset and TZIDs known to the provider are excluded"]
    ctx.limit = 120.0

    def gen_defs():
        yield from definitions(ctx.quick)

    def gen_hist():
        for n in range(1, depth + 1):
            for h in itertools.product(range(len(OPS)), repeat=n):
                yield ("hist", h)

    ctx.explore("A:definitions", gen_defs, run_case)
    ctx.explore("B:histories", gen_hist, run_case)
