"""C07 - TEXT escaping is lossless: alone (codec), as a property value through serialise+parse, as a list item.

E-enum: every string over the critical alphabet up to length k, three paths per string.  Oracle: decoded value is
in {N1(N2(s)), N2(N1(s))}; list arity and the other items survive; encoded text has no LF and no unescaped ; or ,.
Known finding `C07-placeholders` (open, pinned by the repo's own tests): on the parse path the reader rewrites
backslash pairs to %XX placeholders over the whole line; a mismatch is tolerated only if the observation equals
exactly what the defect model predicts (refmodel/rfc_text.predict_parts) AND the line contains a trigger sequence.
"""
import itertools

from mc import env  # noqa: F401
from mc.refmodel import rfc_text as R
from mc.refmodel import rfc_props as RP

from icalendar.cal import Event, Calendar
from icalendar.prop import vText, vCategory

CORE = ("\\", "n", "N", ";", ",", ":", '"', "%", "2", "C", "\r", "\n", " ", "a")
CORE8 = ("\\", "n", ";", ",", ":", "%", "\n", "a")
POOL = ("\t", "\x00", "\x85", "\u2028", "é", "\U0001F600", "\x7f", "3", "B", "5", "A", "=", "'", "^", "\u2029", "\x0b",
        "\u00a0", "\u0301", "\ufeff", "\u200b")
PROP_NAMES = ("SUMMARY", "DESCRIPTION", "X-TEXT")
TEXT_NAMES = tuple(sorted(n for n, (t, _a, _l, _x) in RP.PROPS.items() if t == "TEXT" and n not in ("CATEGORIES",) + PROP_NAMES))
SHAPES = ("s,x", "x,s", "s", "s,s")


def strings(alpha, k, kmin=0):
    for n in range(kmin, k + 1):
        for t in itertools.product(alpha, repeat=n):
            yield "".join(t)


def nontrivial(s):
    return any(c in s for c in "\\;,\n") or "\r\n" in s


def fail(cls, case, expected, observed, known=None):
    f = {"cls": cls, "case": case, "expected": expected, "observed": observed, "size": len(case[-1]) if isinstance(case[-1], str) else 50}
    if known:
        f["known"] = known
    f["unit_test"] = unit_test(case)
    return f


def unit_test(case):
    return ("# explorer-free replay of a C07 case\nimport sys; sys.path[:0] = ['/verif', '/repo/src']\n"
            f"from mc.checks import c07\nr = c07.replay({case!r})\n"
            "for f in r['fails']: print(f['cls'], 'known=' + str(f.get('known')), 'expected', f['expected'], 'observed', repr(f['observed']))\n"
            "print('OK' if not r['fails'] else 'FAILED')\n")


def check_encoded(enc, case, fails, what):
    if "\n" in enc:
        fails.append(fail(f"{what}:raw-line-break-in-encoded", case, "no LF", enc))
    bad = R.unescaped_positions(enc, ";,")
    if bad:
        fails.append(fail(f"{what}:unescaped-delimiter-in-encoded", case, "every ; and , escaped", enc))


def run_codec(case):
    s = case[-1]
    fails = []
    want = R.expected_decodes(s)
    enc_b = vText(s).to_ical()
    enc = enc_b.decode("utf-8")
    check_encoded(enc, case, fails, "codec")
    dec = vText.from_ical(enc)
    if str(dec) not in want:
        fails.append(fail("codec:decode-differs", case, sorted(want), str(dec)))
    dec_b = vText.from_ical(enc_b)
    if str(dec_b) != str(dec):
        fails.append(fail("codec:bytes-and-str-decode-differ", case, str(dec), str(dec_b)))
    return {"state": ("codec", enc), "trans": 3, "nontrivial": nontrivial(s), "fails": fails,
            "outcome": "codec-ok" if not fails else "codec-FAIL"}


def parse_event(ev):
    cal = Calendar()
    cal.add_component(ev)
    data = cal.to_ical()
    back = Calendar.from_ical(data)
    evs = back.subcomponents
    return data, back, evs


def run_prop(case):
    """('prop', NAME, s): Event.add(NAME, s) -> to_ical -> from_ical -> [NAME]"""
    name, s = case[1], case[2]
    fails = []
    want = R.expected_decodes(s)
    ev = Event()
    if case[0] == "prop-raw-str":      # a plain str / raw bytes stored by item assignment: TEXT all the same
        ev[name] = s
    elif case[0] == "prop-raw-bytes":
        ev[name] = s.encode("utf-8")
    else:
        ev.add(name, s)
    data, back, evs = parse_event(ev)
    enc = vText(s).to_ical().decode("utf-8")
    line = f"{name}:{enc}"
    ok_struct = (len(evs) == 1 and list(evs[0].keys()) == [name] and not evs[0].subcomponents and not back.keys())
    if not ok_struct or evs[0].errors:
        obs = ("structure", [(c.name, list(c.keys()), c.errors) for c in back.walk()])
        pred = predicted_prop(line)
        if pred == ("rejected",) and R.ph_triggered(line) and len(evs) == 1 and not evs[0].keys() and len(evs[0].errors) == 1:
            fails.append(fail("prop:rejected", case, "one property " + name, obs, known="C07-placeholders"))
        else:
            fails.append(fail("prop:structure-differs", case, "exactly one property " + name, obs))
        return {"state": ("prop", name, repr(obs)), "trans": 3, "nontrivial": nontrivial(s), "fails": fails,
                "outcome": "prop-structure"}
    got = evs[0][name]
    obs = str(got)
    outcome = "prop-ok"
    if not isinstance(got, vText):
        fails.append(fail("prop:wrong-class", case, "vText", type(got).__name__))
    elif obs not in want:
        pred = predicted_prop(line)
        if R.ph_triggered(line) and pred == ("value", obs):
            fails.append(fail("prop:decode-differs", case, sorted(want), obs, known="C07-placeholders"))
            outcome = "prop-known"
        else:
            fails.append(fail("prop:decode-differs", case, sorted(want), obs))
            outcome = "prop-FAIL"
    # serialising the parsed tree again is not part of C07 (C01)
    return {"state": ("prop", name, obs), "trans": 3, "nontrivial": nontrivial(s), "fails": fails, "outcome": outcome}


def predicted_prop(line):
    try:
        _n, _p, v = R.predict_parts(line)
    except R.LineError:
        return ("rejected",)
    if _p:
        return ("params", sorted(_p))
    return ("value", R.spec_unescape(v))


def run_list(case):
    """('list', shape, s): CATEGORIES list with s as one item."""
    _, shape, s = case
    items = [s if t == "s" else "x" for t in shape.split(",")]
    fails = []
    ev = Event()
    ev.add("categories", list(items))
    data, back, evs = parse_event(ev)
    wants = [R.expected_decodes(i) for i in items]
    enc = ",".join(vText(i).to_ical().decode("utf-8") for i in items)
    line = "CATEGORIES:" + enc
    # encoded form: every item's ; and , escaped, no LF
    bad = [p for p in R.unescaped_positions(enc, ";")]
    if "\n" in enc or bad:
        fails.append(fail("list:raw-break-or-unescaped-semicolon", case, "escaped", enc))
    if len(R.split_unescaped_commas(enc)) != len(items):
        fails.append(fail("list:encoded-arity", case, len(items), enc))
    outcome = "list-ok"
    if len(evs) != 1 or list(evs[0].keys()) != ["CATEGORIES"] or evs[0].errors:
        obs = ("structure", [(c.name, list(c.keys()), c.errors) for c in back.walk()])
        try:
            R.predict_parts(line)
            pred_rej = False
        except R.LineError:
            pred_rej = True
        if pred_rej and R.ph_triggered(line) and len(evs) == 1 and not evs[0].keys():
            fails.append(fail("list:rejected", case, "CATEGORIES", obs, known="C07-placeholders"))
        else:
            fails.append(fail("list:structure-differs", case, "one CATEGORIES property", obs))
        return {"state": ("list", repr(obs)), "trans": 3, "nontrivial": nontrivial(s), "fails": fails,
                "outcome": "list-structure"}
    got = evs[0]["CATEGORIES"]
    if not isinstance(got, vCategory):
        fails.append(fail("list:wrong-class", case, "vCategory", type(got).__name__))
        obs = repr(got)
    else:
        obs = [str(c) for c in got.cats]
        good = len(obs) == len(items) and all(o in w for o, w in zip(obs, wants))
        if not good:
            try:
                _n, _p, v = R.predict_parts(line)
                pred = R.spec_unescape(v).split(",") if not _p else None
            except R.LineError:
                pred = None
            # the list defect: the reader hands the placeholder-decoded text to a decoder that unescapes first and
            # splits at every comma afterwards (the escapes that protected commas are already gone)
            if pred == obs and (R.ph_triggered(line)):
                fails.append(fail("list:items-differ", case, [sorted(w) for w in wants], obs, known="C07-placeholders"))
                outcome = "list-known"
            else:
                fails.append(fail("list:items-differ", case, [sorted(w) for w in wants], obs))
                outcome = "list-FAIL"
    return {"state": ("list", shape, repr(obs)), "trans": 3, "nontrivial": nontrivial(s), "fails": fails,
            "outcome": outcome}


TWICE = ("s,e", "e,s", "s,s", "e,e", "e,s,e")


def run_twice(case):
    """('twice', NAME, shape, s): the property occurs several times in one component, some occurrences empty (e)."""
    _, name, shape, s = case
    items = [s if t == "s" else "" for t in shape.split(",")]
    fails = []
    ev = Event()
    for i in items:
        ev.add(name, i)
    data, back, evs = parse_event(ev)
    lines = [f"{name}:" + vText(i).to_ical().decode("utf-8") for i in items]
    preds = [predicted_prop(ln) for ln in lines]
    trig = any(R.ph_triggered(ln) for ln in lines)
    got = evs[0].get(name) if len(evs) == 1 else None
    vals = got if isinstance(got, list) else ([] if got is None else [got])
    if len(evs) != 1 or list(evs[0].keys()) not in ([name], []) or len(vals) != len(items) or evs[0].errors:
        obs = ("structure", [(c.name, [(k, len(v) if isinstance(v, list) else 1) for k, v in c.items()], c.errors) for c in back.walk()])
        n_rej = sum(1 for p_ in preds if p_ == ("rejected",))
        if trig and n_rej and len(evs) == 1 and len(vals) == len(items) - n_rej and len(evs[0].errors) == n_rej:
            fails.append(fail("twice:rejected", case, f"{len(items)} x {name}", obs, known="C07-placeholders"))
        else:
            fails.append(fail("twice:occurrences-differ", case, f"{len(items)} x {name}", obs))
        return {"state": ("twice", name, shape, repr(obs)), "trans": 3, "nontrivial": True, "fails": fails, "outcome": "twice-structure"}
    outcome = "twice-ok"
    for i, (item, v, ln, pr) in enumerate(zip(items, vals, lines, preds)):
        obs = str(v)
        if not isinstance(v, vText):
            fails.append(fail("twice:wrong-class", case, "vText", type(v).__name__))
        elif obs not in R.expected_decodes(item):
            if R.ph_triggered(ln) and pr == ("value", obs):
                fails.append(fail("twice:decode-differs", case, sorted(R.expected_decodes(item)), (i, obs), known="C07-placeholders"))
                outcome = "twice-known"
            else:
                fails.append(fail("twice:decode-differs", case, sorted(R.expected_decodes(item)), (i, obs)))
                outcome = "twice-FAIL"
    return {"state": ("twice", name, shape, tuple(str(v) for v in vals)), "trans": 3, "nontrivial": True, "fails": fails, "outcome": outcome}


def run_case(case):
    kind = case[0]
    if kind == "twice":
        return run_twice(case)
    if kind in ("prop-raw-str", "prop-raw-bytes"):
        return run_prop(case)
    if kind == "codec":
        return run_codec(case)
    if kind == "prop":
        return run_prop(case)
    return run_list(case)


BLOCK = 256


def run_block(case):
    """('blk', start): EVERY Unicode scalar value of one 256-block inside a TEXT value, on the three paths."""
    _, start, full = case
    fails, n, nk, outcomes = [], 0, 0, set()
    for cp in range(start, start + BLOCK):
        if cp > 0x10FFFF or 0xD800 <= cp <= 0xDFFF:
            continue
        c = chr(cp)
        subs = (("codec", "x" + c + "y"), ("codec", c))
        if full:
            subs += (("prop", "SUMMARY", c + "y"), ("prop", "X-TEXT", "x" + c), ("list", "s,x", "a" + c + "b"))
        for sub in subs:
            r = run_case(sub)
            n += 1
            outcomes.add(r["outcome"])
            for f in r["fails"]:
                if f.get("known"):
                    nk += 1
                if len(fails) < 6 or not f.get("known"):
                    fails.append(f)
    return {"n": n, "traces": n, "trans": 3 * n, "state": (start, tuple(sorted(outcomes)), nk), "nnontrivial": n, "nontrivial": True,
            "outcome": "block:" + "+".join(sorted(outcomes)), "fails": fails[:12]}


def replay(case):
    return run_block(case) if case[0] == "blk" else run_case(case)


def run(ctx):
    k = 4 if ctx.quick else 5
    kc = 4 if ctx.quick else 6
    pairs = list(itertools.combinations(POOL, 2))
    chosen = ([pairs[ctx.seed % len(pairs)], ("\ufeff", "\u00a0")] if ctx.quick else pairs)
    ctx.rule = (f"E-enum: every string over the 14-symbol critical alphabet with |s|<={k} on all paths (codec str+bytes; "
                f"property SUMMARY/DESCRIPTION/X-TEXT via Event.add->to_ical->from_ical; CATEGORIES item in shapes "
                f"{SHAPES}; COMMENT/X-TEXT occurring 2-3 times in one component with empty occurrences, |s|<=3); every other TEXT property name of RFC 5545 at |s|<=2; codec and SUMMARY additionally up to |s|<={kc}; plus core-8 symbols joined by "
                f"{len(chosen)} pair(s) of 20 other characters incl. non-ASCII blanks, a combining mark, U+FEFF and U+200B (seed-rotated in quick, all 190 pairs in thorough) at "
                "|s|<=4; 11 escape-bearing fragments at the end / start / middle of values of every length 0..160 (each lands on every column of a folded line); plus EVERY Unicode scalar value inside a value on the codec path (both tiers) and on the property and list paths (thorough: all; quick: U+0000..U+0FFF and a seed-rotated eighth of the remaining 256-blocks). non-trivial = s contains a character that escaping changes.")
    ctx.bounds = {"alphabet": [repr(c) for c in CORE], "k_all_paths": k, "k_codec_summary": kc,
                  "extra_pairs": [[repr(a), repr(b)] for a, b in chosen[:3]], "n_extra_pairs": len(chosen)}
    ctx.assumptions += ["a bare CR is not a line break (neither RFC 5545 nor the library's splitter treat it as one)",
                        "decoded value may be N1(N2(s)) or N2(N1(s)) (both documented normalisations, either order)"]

    def gen_main():
        for s in strings(CORE, k):
            yield ("codec", s)
            for n in PROP_NAMES:
                yield ("prop", n, s)
            for sh in SHAPES:
                yield ("list", sh, s)

    def gen_deep():
        for s in strings(CORE, kc, k + 1):
            yield ("codec", s)
            yield ("prop", "SUMMARY", s)

    def gen_extra():
        for a, b in chosen:
            alpha = CORE8 + (a, b)
            for s in strings(alpha, 4):
                if a not in s and b not in s:
                    continue
                yield ("codec", s)
                yield ("prop", "SUMMARY", s)
                yield ("list", "s,x", s)

    def gen_twice():
        for s in strings(CORE, 3):
            for n in ("COMMENT", "X-TEXT"):
                for sh in TWICE:
                    yield ("twice", n, sh, s)

    def gen_raw():
        for s_ in strings(CORE, 3):
            for kind in ("prop-raw-str", "prop-raw-bytes"):
                yield (kind, "SUMMARY", s_)

    def gen_names():
        # every TEXT-typed property name of RFC 5545 carries its value the same way (no name splits or trims on its own)
        for n in TEXT_NAMES:
            for s in strings(CORE, 2):
                yield ("prop", n, s)

    def gen_all():
        # codec: every block in both tiers; property and list paths: every block in thorough, in quick the first 16 blocks
        # (U+0000..U+0FFF) and a seed-rotated eighth of the others
        for i, b in enumerate(range(0, 0x110000, BLOCK)):
            yield ("blk", b, (not ctx.quick) or i < 16 or i % 8 == ctx.seed % 8)

    def gen_long():
        # escapes meeting the folding layer: a value of every length up to two folds that ENDS (or starts, or is cut in the
        # middle) with something the escaping changes, so that each of these falls on every column of a physical line
        tails = ("\\", ";", ",", "\n", "\\n", "a\\", "\\\\", "\r\n", "\u00e9\\", "\\;", "n",
                 # runs of blanks: a whole physical line of the folded form may then consist of white space only
                 " ", "  ", "\t", " \t ", " " * 73, " " * 74, " " * 75, " " * 147, "\t" * 150, " " * 230)
        for tail in tails:
            for pad in range(0, 161):
                for s_ in ("x" * pad + tail, tail + "x" * pad, "x" * (pad // 2) + tail + "x" * (pad - pad // 2)):
                    yield ("prop", "SUMMARY", s_)
                    yield ("list", "s,x", s_)
                    yield ("list", "x,s", s_)

    ctx.explore("core-alphabet:all-paths", gen_main, run_case)
    ctx.explore("escapes-on-every-fold-column", gen_long, run_case)
    ctx.explore("every-scalar-value-in-a-text-value", gen_all, run_block)
    ctx.explore("every-TEXT-property-name", gen_names, run_case)
    ctx.explore("values-stored-as-plain-str-or-bytes", gen_raw, run_case)
    ctx.explore("repeated-property-with-empty-occurrences", gen_twice, run_case)
    if kc > k:
        ctx.explore("core-alphabet:deep-codec+summary", gen_deep, run_case)
    ctx.explore("other-unicode-pairs", gen_extra, run_case)
