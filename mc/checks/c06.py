"""C06 - folding: physical lines <= 75 octets, no split characters, exact unfolding.

E-enum over a width alphabet W = {a(1 octet), e-acute(2), euro(3), emoji(4), SP, TAB, CR, combining acute U+0301 (2),
combining dakuten U+3099 (3)}:
 (i)   every line  a^p . w . b^s   with p in [0,160], w in W^{<=j}, s in a menu of tail lengths: places every
       character width (and SP/TAB/CR) at every offset relative to the first three fold boundaries;
 (ii)  every periodic line  a^p . (w)^r  for w in W^{1..m}, p in [0,3], r so that the line has >= 165 octets: dense
       mixtures of widths across several consecutive boundaries;
 (iii) the lines of (i) (reduced) as property values / parameter values of a serialised component.
Oracle = the statement, checked on the bytes: split at CRLF, every piece <= 75 octets and valid UTF-8, every
continuation starts with one space, removing CRLF+one-WSP restores the line, the library's own unfolding agrees.
"""
import itertools

from mc import env  # noqa: F401
from icalendar.parser import Contentline, Contentlines
from icalendar.cal import Event, Calendar
from icalendar.prop import vText

W = ("a", "é", "€", "\U0001F600", " ", "\t", "\r", "\u0301", "\u3099")
# characters Python's text layer treats specially (BOM stripped by utf-8-sig, str.splitlines() separators, NUL): same
# widths as members of W, but a "same width class behaves the same" assumption is exactly what a change may break
X = ("\ufeff", "\u2028", "\x0b", "\x85", "\x00", "\x1c",
     # the first and last code point of every UTF-8 width class (a width computed from thresholds is off by one exactly here)
     "\x7f", "\x80", "\u07ff", "\u0800", "\uffff", "\U00010000", "\U0010ffff",
     # characters of the escaping layer (a fold must be allowed between a backslash and what follows)
     "\\", ";", ",", '"')
# characters that take part in grapheme clusters / bidirectional text: to a fold they are ordinary characters of their width
J = ("\u200d", "\u200c", "\ufe0f", "\U0001F468", "\U0001F3FB", "\U0001F1E9", "\u0301", "\u00ad", "\u2060", "\u200f", "\u202e",
     "\U000E0062", "\u034f", "\u0e33", "a")
CLUSTERS = ("\U0001F468\u200d\U0001F469\u200d\U0001F467", "\U0001F1E9\U0001F1EA", "1\ufe0f\u20e3", "\u0915\u094d\u200d\u0937",
            "\U0001F44D\U0001F3FB", "\U0001F3F4\U000E0067\U000E0062\U000E007F", "e\u0301\u0323", "\u05d0\u200f\u202eabc\u202c")
LIMIT = 75


def words_extra(maxlen):
    """Words over W + X that contain at least one character of X."""
    for n in range(1, maxlen + 1):
        for t in itertools.product(W + X, repeat=n):
            if any(c in X for c in t):
                yield "".join(t)


def words(maxlen, minlen=0):
    for n in range(minlen, maxlen + 1):
        for t in itertools.product(W, repeat=n):
            yield "".join(t)


def check_bytes(out, line, fails, case, what):
    """The statement, on the serialised bytes `out` of the single content line `line`."""
    phys = out.split(b"\r\n")
    for i, p in enumerate(phys):
        if len(p) > LIMIT:
            fails.append({"cls": f"{what}:physical-line-too-long", "case": case, "expected": f"<= {LIMIT} octets",
                          "observed": f"physical line {i} has {len(p)} octets"})
            break
    for i, p in enumerate(phys):
        try:
            p.decode("utf-8")
        except UnicodeDecodeError:
            fails.append({"cls": f"{what}:split-character", "case": case, "expected": "each physical line is UTF-8",
                          "observed": f"physical line {i} = {p!r}"})
            break
    for i, p in enumerate(phys[1:], 1):
        if p[:1] != b" ":
            fails.append({"cls": f"{what}:continuation-without-space", "case": case, "expected": "starts with SP",
                          "observed": f"physical line {i} = {p[:8]!r}"})
            break
    restored = b"".join([phys[0]] + [p[1:] for p in phys[1:]])
    if restored != line.encode("utf-8"):
        fails.append({"cls": f"{what}:unfold-does-not-restore", "case": case, "expected": line,
                      "observed": restored.decode("utf-8", "replace")})
    return len(phys)


def run_line(case):
    kind = case[0]
    if kind == "pws":
        _, p, w, s = case
        line = "a" * p + w + "b" * s
    else:
        _, p, w, r = case
        line = "a" * p + w * r
    fails = []
    cl = Contentline(line)
    out = cl.to_ical()
    n = check_bytes(out, line, fails, case, "line")
    back = Contentline.from_ical(out.decode("utf-8", "replace"))
    if str(back) != line:
        fails.append({"cls": "line:library-unfold-differs", "case": case, "expected": line, "observed": str(back)})
    # the same line handed over as bytes with an explicit input encoding (the documented second argument; utf-8-sig is what
    # files with a byte-order mark are read with): the INPUT encoding does not change what is written
    for enc, data_, marked in (("utf-8", line.encode("utf-8"), True), ("utf-8-sig", b"\xef\xbb\xbf" + line.encode("utf-8"), True),
                               ("utf-8-sig", line.encode("utf-8"), False)):
        if not marked and line.startswith("\ufeff"):
            continue  # without an explicit mark in front, the line's own leading U+FEFF IS the mark for this codec
        try:
            o2 = Contentline(data_, encoding=enc).to_ical()
        except Exception as e:  # noqa: BLE001
            o2 = f"{type(e).__name__}: {e}"
        if o2 != out:
            fails.append({"cls": "line:bytes-input-with-encoding-argument-folds-differently", "case": case, "expected": out[:90], "observed": (enc, o2[:90])})
            break
    # the same through the Contentlines container (what Component.to_ical uses): CRLF terminated
    outs = Contentlines([cl, ""]).to_ical() if line else b"\r\n"
    if not outs.endswith(b"\r\n") or (line and outs[:-2] != out):
        fails.append({"cls": "line:container-not-crlf-terminated", "case": case, "expected": out + b"\r\n",
                      "observed": outs})
    return {"state": (n, len(out), out[70:80]), "trans": 3, "nontrivial": n > 1,
            "outcome": f"physical={min(n, 4)}", "fails": fails,
            "extra": {"unit": 1}}


def run_component(case):
    """(iii): a line's text as value / parameter value of a property inside VCALENDAR/VEVENT."""
    _, where, p, w, s = case
    text = "a" * p + w + "b" * s
    ev = Event()
    fails = []
    if where.startswith("named:"):
        # a short property name followed by p repetitions of the unit w: few characters, possibly many octets
        ev.add(where[6:], w * p)
    elif where == "value":
        ev.add("x-long", text)
    elif where == "param":
        if "\r" in w or "\t" in w:
            return {"state": ("skip",), "trans": 0, "traces": 0, "outcome": "skipped-control-in-param", "fails": []}
        ev.add("x-long", "v", parameters={"x-p": text})
    else:
        ev.add("summary", "s", parameters={"altrep": text.replace("\r", "").replace("\t", "")})
        ev.add("description", text)
    cal = Calendar()
    cal.add_component(ev)
    out = cal.to_ical()
    if not out.endswith(b"\r\n"):
        fails.append({"cls": "component:not-crlf-terminated", "case": case, "expected": "ends with CRLF",
                      "observed": out[-10:]})
    # expected logical lines come from the component's own content lines
    lines = [str(x) for x in cal.content_lines() if x]
    phys = out[:-2].split(b"\r\n") if out.endswith(b"\r\n") else out.split(b"\r\n")
    for i, pl in enumerate(phys):
        if len(pl) > LIMIT:
            fails.append({"cls": "component:physical-line-too-long", "case": case, "expected": f"<= {LIMIT} octets",
                          "observed": f"physical line {i} has {len(pl)} octets: {pl[:30]!r}..."})
            break
        try:
            pl.decode("utf-8")
        except UnicodeDecodeError:
            fails.append({"cls": "component:split-character", "case": case, "expected": "UTF-8 per line",
                          "observed": repr(pl)})
            break
    logical = []
    for pl in phys:
        if pl[:1] in (b" ",) and logical:
            logical[-1] += pl[1:]
        else:
            logical.append(pl)
    want = [ln.encode("utf-8") for ln in lines]
    if logical != want:
        fails.append({"cls": "component:unfold-does-not-restore", "case": case, "expected": want[2:4],
                      "observed": logical[2:4]})
    return {"state": (len(phys), len(out)), "trans": 1, "nontrivial": len(phys) > len(lines),
            "outcome": f"extra-physical={min(len(phys) - len(lines), 3)}", "fails": fails}


TAILS_Q = (0, 1, 73, 74, 75, 76, 150)
BLOCK = 256
ALIGN = (70, 71, 72, 73, 74, 75)  # a^p.c.bbb: c starts 5..0 octets before the budget of the first physical line ends


def run_block(case):
    """('blk', start): EVERY Unicode scalar value of one 256-code-point block as the character at the fold point."""
    _, start = case
    fails, n, hist = [], 0, {}
    for cp in range(start, start + BLOCK):
        if cp == 0x0A or 0xD800 <= cp <= 0xDFFF or cp > 0x10FFFF:
            continue
        c = chr(cp)
        for p in ALIGN:
            line = "a" * p + c + "bbb"
            sub = ("pws", p, c, 3)
            cl = Contentline(line)
            out = cl.to_ical()
            k = check_bytes(out, line, fails, sub, "line")
            hist[k] = hist.get(k, 0) + 1
            if str(Contentline.from_ical(out.decode("utf-8", "replace"))) != line:
                fails.append({"cls": "line:library-unfold-differs", "case": sub, "expected": line, "observed": out})
            n += 1
    return {"n": n, "traces": n, "state": (start, tuple(sorted(hist.items()))), "trans": 2 * n, "nnontrivial": n - hist.get(1, 0),
            "nontrivial": True, "outcome": "block-ok" if not fails else "FAIL", "fails": fails[:5]}


def replay(case):
    if case[0] == "blk":
        return run_block(case)
    return run_component(case) if case[0] == "comp" else run_line(case)


def run(ctx):
    j = 3 if ctx.quick else 4
    m = 5 if ctx.quick else 7
    jc = 2 if ctx.quick else 3
    ctx.rule = ("E-enum over width alphabet W={a,e-acute(2 octets),euro(3),emoji(4),SP,TAB,CR,U+0301,U+3099}: (i) all lines a^p.w.b^s, "
                f"p in 0..160, w in W^<={j}, s in {TAILS_Q}; (ii) all periodic lines a^p.(w)^r, w in W^1..{m}, p in 0..3, "
                f">=165 octets; (iii) a^p.w.b^s (w in W^<={jc}) as property value, parameter value and ALTREP+DESCRIPTION "
                "of an event inside a calendar; (vi) short property names x k repetitions (k <= 40/80) of one character or a two-character unit of every width through the component path; (iv)/(v) the same shapes with words over W + {U+FEFF, U+2028, VT, U+0085, NUL, FS, and the boundary code points U+007F/0080/07FF/0800/FFFF/10000/10FFFF} containing at least one of these; (vii) words of <=2/3 characters over 14 joiner / variation-selector / combining / bidi / tag characters (U+200D, U+200C, U+FE0F, ...) and 8 real grapheme clusters (ZWJ family, flag, keycap, conjunct, skin tone, tag flag) at every alignment p in 0..160; (ix) lines of every length 140..459 and of 1000..150000 characters (2000+ folds) over 7 units; (viii) a^p.c.bbb for EVERY Unicode scalar value c except LF (all 1,112,063, both tiers) x p in 70..75, i.e. every position of c relative to the octet budget. non-trivial = the line was actually folded.")
    ctx.bounds = {"alphabet": [repr(c) for c in W], "prefix_len": "0..160", "w_len_i": j, "w_len_ii": m,
                  "tails": list(TAILS_Q), "limit": LIMIT}
    ctx.assumptions += ["lines contain no LF (the library asserts this; statement quantifies over lines without LF)",
                        "in words of two or more characters, characters outside W, X and J fold like their width class (single characters at the fold point: every scalar value is enumerated)"]

    def gen_i():
        for w in words(j):
            for p in range(0, 161):
                for s in TAILS_Q:
                    yield ("pws", p, w, s)

    def gen_x():
        jx, mx = (2, 3) if ctx.quick else (3, 4)
        for w in words_extra(jx):
            for pp in range(0, 161):
                for sfx in (0, 74, 150):
                    yield ("pws", pp, w, sfx)
        for w in words_extra(mx):
            blen = len(w.encode("utf-8"))
            for pp in range(0, 4):
                yield ("per", pp, w, -(-165 // blen))

    def gen_xc():
        for where in ("value", "param", "two"):
            for w in words_extra(1 if ctx.quick else 2):
                for pp in range(0, 161):
                    for sfx in (0, 74):
                        yield ("comp", where, pp, w, sfx)

    def gen_ii():
        for w in words(m, 1):
            blen = len(w.encode("utf-8"))
            r = -(-165 // blen)
            for p in range(0, 4):
                yield ("per", p, w, r)

    def gen_iii():
        for where in ("value", "param", "two"):
            for w in words(jc):
                for p in range(0, 161, 1):
                    for s in (0, 74, 150):
                        yield ("comp", where, p, w, s)

    ctx.explore("i:prefix-word-tail", gen_i, run_line)
    ctx.explore("ii:periodic", gen_ii, run_line)
    ctx.explore("iii:component", gen_iii, run_component)
    def gen_short():
        units = list(W) + ["\U0001F600a", "a\U0001F600", "\U0001F600\u20ac", "\u00e9\U0001F600"]
        for name in ("x-a", "uid", "summary", "comment", "x-longer-property-name"):
            for unit in units:
                if unit in ("\r", "\t", " "):
                    continue
                for k in range(0, 41 if ctx.quick else 81):
                    yield ("comp", "named:" + name, k, unit, 0)

    def gen_j():
        for n in range(1, (2 if ctx.quick else 3) + 1):
            for t in itertools.product(J, repeat=n):
                if all(c == "a" for c in t):
                    continue
                for pp in range(0, 161):
                    for sfx in (0, 74):
                        yield ("pws", pp, "".join(t), sfx)
        for w in CLUSTERS:
            for pp in range(0, 161):
                for sfx in (0, 1, 74, 150):
                    yield ("pws", pp, w, sfx)
                for where in ("value", "param", "two"):
                    yield ("comp", where, pp, w, 0)
            for r in range(1, 40):
                yield ("per", 0, w, r)

    def gen_all():
        # all 4352 blocks = every scalar value, in both tiers
        for b in range(0, 0x110000, BLOCK):
            yield ("blk", b)

    ctx.explore("viii:every-scalar-value-at-the-fold-point", gen_all, run_block)
    def gen_longlines():
        # very long lines: thousands of folds (a fold routine that keeps state per fold, recurses or counts the physical
        # lines in advance shows only here); every length in a band around multiples of 74/75 and a few huge ones
        units = ("a", "\u00e9", "\u20ac", "\U0001F600", "ab \u00e9", " ", "a\t")
        for unit in units:
            for n in list(range(140, 460)) + [1000, 2219, 2220, 2221, 5549, 5550, 5551, 5552, 8000, 20000, 74000, 150000]:
                reps = -(-n // len(unit))
                yield ("per", 0, unit, reps)
                if n >= 1000:
                    yield ("pws", n, "\u00e9", 0)       # ASCII all the way, one non-ASCII character at the very end
                    yield ("pws", 0, "\u00e9", n)       # ... and at the very start

    ctx.explore("ix:very-long-lines", gen_longlines, run_line, limit=60.0)
    ctx.explore("vi:short-names-x-homogeneous-values", gen_short, run_component)
    ctx.explore("vii:joiners-and-grapheme-clusters", gen_j, lambda case: run_component(case) if case[0] == "comp" else run_line(case))
    ctx.explore("iv:special-characters", gen_x, run_line)
    ctx.explore("v:special-characters-in-components", gen_xc, run_component)
