"""C14 - alarm times = anchor + TRIGGER + k*DURATION, k = 0..REPEAT (RFC 5545 / RFC 9074).

E-enum: component {VEVENT, VTODO} x start {absent, date, floating, UTC, zoned 12h before a DST change, zoned, dateutil-zoned, fixed offset} x end
{absent, DTEND|DUE, DURATION in days, DURATION with a time part, zero DURATION} x alarm lists of length <= 2 over the product
TRIGGER (8) x RELATED (5, incl. lower / mixed case) x (REPEAT, DURATION) (8, incl. a zero DURATION), each built through the API and again parsed from its own
serialisation, under both providers.  Oracle: refmodel/alarms.py; per alarm the sequence of trigger times, and overall
their multiset, equal the model's; Alarm.triggers agrees; missing/invalid information is reported only by the
documented error classes, and only where information is really missing or invalid.
"""
import itertools
import re
from datetime import date, datetime, timedelta, timezone

from mc import env
from mc.refmodel import alarms as M

from icalendar.cal import Event, Todo, Alarm, InvalidCalendar, IncompleteComponent
from icalendar.alarms import Alarms, IncompleteAlarmInformation
from icalendar.timezone import tzp

UTC = timezone.utc
STARTS = ("absent", "date", "floating", "utc", "zoned-dst", "zoned", "zoned-dateutil", "fixed-offset", "date-subclass", "utc-subclass")
ENDS = ("absent", "explicit", "dur-days", "dur-time", "dur-zero", "explicit-same")
TRIGGERS = ("absent", "PT0S", "-PT15M", "PT5H", "-P1D", "P1D", "abs-utc", "abs-zoned", "-P7D", "P14D", "-PT1H0M22S")
RELATED = (None, "START", "END", "end", "Start")  # unquoted parameter values are case-insensitive
REPDUR = ((None, None), (0, "PT5M"), (2, "PT5M"), (2, None), (None, "PT5M"), (1, "P1D"), (3, "PT24H"), (2, "PT0S"), (1, "P7D"), (2, "PT45S"), (101, "PT5M"), (250, "PT45S"))
TD = {"PT0S": timedelta(0), "-PT15M": timedelta(minutes=-15), "PT5H": timedelta(hours=5), "-P1D": timedelta(days=-1),
      "P1D": timedelta(days=1), "PT5M": timedelta(minutes=5), "PT24H": timedelta(hours=24), "-P7D": timedelta(days=-7),
      "P14D": timedelta(days=14), "-PT1H0M22S": timedelta(hours=-1, seconds=-22), "P7D": timedelta(days=7), "PT45S": timedelta(seconds=45)}
TD["PT0S"] = timedelta(0)
DOCUMENTED = (IncompleteAlarmInformation, IncompleteComponent, InvalidCalendar)


def start_value(kind):
    if kind == "absent":
        return None
    if kind == "date":
        return date(2024, 3, 30)
    if kind == "date-subclass":  # instances of user subclasses of date / datetime (mc/userkinds.py)
        from mc.userkinds import Day
        return Day(2024, 3, 30)
    if kind == "utc-subclass":
        from mc.userkinds import Stamp
        return Stamp(2024, 3, 30, 14, 0, tzinfo=UTC)
    if kind == "floating":
        return datetime(2024, 3, 30, 14, 0)
    if kind == "utc":
        return datetime(2024, 3, 30, 14, 0, tzinfo=UTC)
    if kind == "zoned-dst":
        return tzp.localize(datetime(2024, 3, 30, 22, 0), "Europe/Berlin")
    if kind == "zoned-dateutil":  # a third tzinfo implementation (wall-clock arithmetic), 12h before a DST change
        import dateutil.tz
        return datetime(2024, 10, 26, 22, 0, tzinfo=dateutil.tz.gettz("Europe/Berlin"))
    if kind == "fixed-offset":  # datetime.timezone with a non-zero offset (no zone id)
        return datetime(2024, 3, 30, 14, 0, tzinfo=timezone(timedelta(hours=5, minutes=30)))
    return tzp.localize(datetime(2024, 6, 1, 10, 0), "America/New_York")


def trigger_value(name):
    if name == "absent":
        return None
    if name == "abs-utc":
        return datetime(2024, 3, 29, 8, 0, tzinfo=UTC)
    if name == "abs-zoned":
        return tzp.localize(datetime(2024, 3, 29, 9, 0), "Europe/Berlin")
    return TD[name]


def build(case):
    """-> (component, start, explicit end, DURATION, [alarm dicts])"""
    _, provider, path, cname, sk, ek, alarms = case[:7]
    extras = len(case) > 7 and case[7]
    comp = Event() if cname == "VEVENT" else Todo()
    comp.add("uid", "c14")
    start = start_value(sk)
    end = dur = None
    if start is not None:
        comp.start = start
    if ek == "explicit":
        base = start if start is not None else date(2024, 3, 30)
        end = base + (timedelta(days=2) if M.is_date(base) else timedelta(hours=2))
        comp.end = end
    elif ek == "explicit-same":  # an explicit end equal to the start (also for DATE values): it IS the end
        end = start if start is not None else date(2024, 3, 30)
        comp.end = end
    elif ek == "dur-days":
        dur = timedelta(days=1)
        comp.DURATION = dur
    elif ek == "dur-time":
        dur = timedelta(hours=1, minutes=30)
        comp.DURATION = dur
    elif ek == "dur-zero":
        dur = timedelta(0)
        comp.DURATION = dur
    specs = []
    for trig, rel, (rep, rdur) in alarms:
        a = Alarm()
        a.add("action", "DISPLAY")
        tv = trigger_value(trig)
        if tv is not None:
            a.TRIGGER = tv
            if rel is not None:
                a.TRIGGER_RELATED = rel
        if rep is not None:
            a.REPEAT = rep
        if rdur is not None:
            a.DURATION = TD[rdur]
        if extras:
            # RFC 9074 / 5545 properties that do not take part in the computation of alarm times
            a.add("proximity", "DEPART")
            a.add("uid", "alarm-uid")
            a.add("related-to", "other-alarm", parameters={"RELTYPE": "SNOOZE"})
            a.add("description", "text")
        comp.add_component(a)
        specs.append({"trigger": tv, "related": rel, "repeat": rep, "duration": TD[rdur] if rdur else None})
    return comp, start, end, dur, specs


def expectation(start, end, dur, specs):
    """-> ('times', [[per alarm]]) | ('error',) | ('either', [[...]])"""
    relative = [s for s in specs if isinstance(s["trigger"], timedelta)]
    invalid = (start is not None and M.is_date(start) and dur is not None and dur.seconds != 0) or \
              (start is not None and end is not None and M.is_date(start) != M.is_date(end))
    if invalid:
        return ("error",)
    if start is None:
        if relative:
            return ("error",)
        return ("either", [M.alarm_times(None, None, s) for s in specs])
    e = M.component_end(start, end, dur)
    return ("times", [M.alarm_times(start, e, s) for s in specs])


def render(ts):
    return [t.isoformat() + ("" if M.is_date(t) or t.tzinfo is None else "|" + str(t.utcoffset())) for t in ts]


def fail(cls, case, expected, observed):
    return {"cls": cls, "case": case, "expected": expected, "observed": observed, "size": len(repr(case)),
            "unit_test": ("import sys; sys.path[:0] = ['/verif', '/repo/src']\nfrom mc.checks import c14\n"
                          f"r = c14.replay({case!r})\nfor f in r['fails']: print(f['cls'], f['expected'], f['observed'])\n")}


def run_case(case):
    _, provider, path, cname, sk, ek, alarms = case[:7]
    env.use_provider(provider)
    comp, start, end, dur, specs = build(case)
    if path in ("parsed", "parsed+", "parsedW"):
        cls = Event if cname == "VEVENT" else Todo
        data = comp.to_ical()
        if path == "parsed+":  # RFC 5545: dur-value = (["+"] / "-") "P" ... - the same text with explicit plus signs
            data = re.sub(rb"((?:TRIGGER|DURATION)[^:\r\n]*:)(P)", rb"\1+\2", data)
        if path == "parsedW":  # dur-week: whole weeks written in the week form (-P7D == -P1W)
            data = re.sub(rb"((?:TRIGGER|DURATION)[^:\r\n]*:-?)P(\d+)D(?=\r)",
                          lambda m: m.group(0) if int(m.group(2)) % 7 or m.group(2) == b"0" else m.group(1) + b"P%dW" % (int(m.group(2)) // 7), data)
        comp = cls.from_ical(data)
    if path in ("parsed", "parsed+", "parsedW") and sk == "zoned-dateutil":
        # after parsing the value carries the ACTIVE provider's tzinfo for Europe/Berlin: "plus" is that provider's addition
        start = tzp.localize(start.replace(tzinfo=None), "Europe/Berlin")
        if end is not None:
            end = tzp.localize(end.replace(tzinfo=None), "Europe/Berlin")
    exp = expectation(start, end, dur, specs)
    fails = []
    feed = case[8] if len(case) > 8 else "whole"
    alarm_objs = comp.walk("VALARM")
    try:
        if feed == "whole":
            times = Alarms(comp).times
        else:
            # the same alarms reach the Alarms object in another order: what it computes depends on what it holds when
            # `times` is asked, not on what it held when the parent arrived
            late = alarm_objs[1:] if feed == "first-with-parent" else alarm_objs
            comp.subcomponents = [x for x in comp.subcomponents if not any(x is l_ for l_ in late)]
            if feed == "alarms-then-parent":
                A = Alarms()
                for al in late:
                    A.add_alarm(al)
                A.add_component(comp)
            else:
                A = Alarms(comp)
                for i, al in enumerate(late):
                    A.add_alarm(al) if i % 2 == 0 else A.add_component(al)
            times = A.times
        obs = ("times", times)
    except DOCUMENTED as e:
        obs = ("error", type(e).__name__)
    except Exception as e:  # noqa: BLE001
        obs = ("crash", f"{type(e).__name__}: {e}")
    outcome = obs[0]
    if obs[0] == "crash":
        fails.append(fail("undocumented-exception", case, exp[0], obs[1]))
    elif exp[0] == "error":
        if obs[0] != "error":
            fails.append(fail("missing/invalid-information-not-reported", case, "a documented error", render([t.trigger for t in obs[1]])))
    elif obs[0] == "error":
        if exp[0] != "either":
            fails.append(fail("error-although-information-is-complete", case, [render(x) for x in exp[1]], obs[1]))
    else:
        want = exp[1]
        per = [[t.trigger for t in obs[1] if t.alarm is a] for a in alarm_objs]
        if len(per) != len(want) or any(len(p) != len(w) or not all(M.same_time(x, y) for x, y in zip(p, w)) for p, w in zip(per, want)):
            fails.append(fail("alarm-times-differ", case, [render(x) for x in want], [render(x) for x in per]))
        if sum(len(p) for p in per) != len(obs[1]):
            fails.append(fail("times-not-attributable-to-alarms", case, sum(len(w) for w in want), len(obs[1])))
        # Alarm.triggers: same formula on the offsets themselves
        for a, s in zip(alarm_objs, specs):
            trg = a.triggers
            tv = s["trigger"]
            seq = []
            if tv is not None:
                seq = [tv]
                if s["duration"] is not None:
                    seq += [tv + s["duration"] * k for k in range(1, (s["repeat"] or 0) + 1)]
            if isinstance(tv, timedelta):
                key = "end" if (s["related"] or "").upper() == "END" else "start"
            else:
                key = "absolute"
            got = {"start": tuple(trg.start), "end": tuple(trg.end), "absolute": tuple(trg.absolute)}
            wantd = {"start": (), "end": (), "absolute": ()}
            wantd[key] = tuple(seq)
            if got != wantd:
                fails.append(fail("Alarm.triggers-differ", case, repr(wantd), repr(got)))
                break
    nt = any(s["trigger"] is not None for s in specs)
    return {"state": (provider, path, cname, sk, ek, repr(obs[1]) if obs[0] != "times" else tuple(render([t.trigger for t in obs[1]]))),
            "trans": 3, "nontrivial": nt, "outcome": outcome + ":" + exp[0], "fails": fails}


replay = run_case

REDUCED = [(t, r, rd) for t in ("-PT15M", "PT5H", "-P1D", "abs-utc") for r in (None, "END") for rd in ((None, None), (2, "PT5M"), (1, "P1D"))]


def run(ctx):
    ctx.rule = ("E-enum: {VEVENT,VTODO} x 10 start kinds (incl. instances of user subclasses of date / datetime) x 6 end kinds (incl. a zero DURATION and an explicit end equal to the start) x all single alarms TRIGGER(11) x RELATED(5) x "
                "(REPEAT,DURATION)(12, incl. REPEAT 101 and 250, a zero DURATION, whole weeks, seconds) x {API-built, parsed, parsed with explicit plus signs on durations, parsed with whole weeks in week form} x {zoneinfo, pytz}; plus all ordered pairs over a reduced menu of "
                f"{len(REDUCED)} alarm shapes" + ("" if ctx.quick else " and all triples over 8 shapes") +
                "; E-hist: the alarms of a component handed to the Alarms object after the parent, before it, or partly with it (add_alarm / add_component alternating): same times. non-trivial = at least one alarm has a TRIGGER.")
    ctx.bounds = {"starts": STARTS, "ends": ENDS, "triggers": TRIGGERS, "related": [str(r) for r in RELATED],
                  "repeat_duration": [str(x) for x in REPDUR], "pairs_menu": len(REDUCED)}
    ctx.assumptions += ["'plus' is the provider-native addition (wall-clock for zoneinfo, absolute/normalize for pytz)",
                        "a component without DTSTART and only absolute alarms may either yield the times or a documented error",
                        "zoned absolute triggers are built through the API only (RFC requires UTC; the parsed form is C02/C11's business)"]

    def gen():
        for provider in env.PROVIDERS:
            for path in ("api", "parsed", "parsed+", "parsedW"):
                for cname in ("VEVENT", "VTODO"):
                    for sk in STARTS:
                        for ek in ENDS:
                            for t in TRIGGERS:
                                if path != "api" and t == "abs-zoned":
                                    continue
                                for r in RELATED:
                                    for rd in REPDUR:
                                        yield ("c", provider, path, cname, sk, ek, ((t, r, rd),))
                            if sk in ("date", "zoned-dst", "absent") or ek in ("dur-time",):
                                pairs = itertools.product(REDUCED, repeat=2)
                            else:
                                pairs = itertools.product(REDUCED[::3], repeat=2)
                            for a, b in pairs:
                                yield ("c", provider, path, cname, sk, ek, (a, b))
                            if not ctx.quick:
                                for tr in itertools.product(REDUCED[::3], repeat=3):
                                    yield ("c", provider, path, cname, sk, ek, tr)
                            yield ("c", provider, path, cname, sk, ek, ())
                            # every single alarm shape once more with PROXIMITY / UID / RELATED-TO / DESCRIPTION on the alarm
                            for t, r, rd in REDUCED:
                                yield ("c", provider, path, cname, sk, ek, ((t, r, rd),), True)

    ctx.explore("components x alarms", gen, run_case)

    def gen_feed():
        for provider in env.PROVIDERS:
            for cname in ("VEVENT", "VTODO"):
                for sk in STARTS:
                    for ek in ENDS:
                        for feed in ("parent-then-alarms", "alarms-then-parent", "first-with-parent"):
                            for shape in REDUCED:
                                yield ("c", provider, "api", cname, sk, ek, (shape,), False, feed)
                            for a, b in itertools.product(REDUCED[::3], repeat=2):
                                yield ("c", provider, "api", cname, sk, ek, (a, b), False, feed)
                            for tr in itertools.product(REDUCED[1::6], repeat=3):
                                yield ("c", provider, "api", cname, sk, ek, tr, False, feed)

    ctx.explore("feed orders (alarms added before / after / partly with the parent)", gen_feed, run_case)
