"""C18 - used-timezone discovery is complete; adding missing timezones closes it.

E-enum + E-hist: calendars = every subset of <=3 of 12 placements of zoned values (DTSTART, DTEND, DUE,
RECURRENCE-ID, two RDATE lines with different zones, EXDATE, FREEBUSY, a DATE-TIME TRIGGER in a nested alarm, a DTSTART
at depth 3 inside unknown components, an X- property, an explicit TZID=UTC) x every subset of 6 pre-existing VTIMEZONEs (used, the same one
again, unused known, definition of the unknown used id, unused unknown id, VTIMEZONE without TZID), built by parsing
text and through the API, under both providers; then the history get_used, get_missing, add_missing x 3.
Reference = set comprehension over the placements (independent of the library's traversal).
"""
import itertools
from datetime import date, datetime, timedelta
from zoneinfo import ZoneInfo

from mc import env
from icalendar.cal import Calendar, Event, Todo, Alarm, FreeBusy, Journal, Component, Timezone
from icalendar.prop import vDDDTypes, vPeriod, vText
from icalendar.timezone import tzp

A, B, C, D = "Europe/Berlin", "America/New_York", "Custom/Unknown", "Asia/Tokyo"
T_UNUSED = "Africa/Cairo"
X_UNUSED = "Custom/Other"
W = "(UTC+01:00) Amsterdam, Berlin; Bern"  # an Exchange-style id: needs quoting as a parameter and escaping as TEXT
WINDOW = (date(2024, 1, 1), date(2025, 1, 1))

PLACEMENTS = {
    "P1": ("VEVENT", ["DTSTART;TZID=%s:20240601T100000" % A], {A}),
    "P2": ("VEVENT", ["DTEND;TZID=%s:20240601T120000" % B], {B}),
    "P3": ("VTODO", ["DUE;TZID=%s:20240601T100000" % A], {A}),
    "P4": ("VEVENT", ["RECURRENCE-ID;TZID=%s:20240601T100000" % C], {C}),
    "P5": ("VEVENT", ["RDATE;TZID=%s:20240602T100000,20240603T100000" % A, "RDATE;TZID=%s:20240604T100000" % B], {A, B}),
    "P6": ("VEVENT", ["EXDATE;tzid=%s:20240602T100000" % B], {B}),  # parameter names are caseless
    "P7": ("VFREEBUSY", ["FREEBUSY;TZID=%s:20240601T100000/PT1H,20240601T130000/20240601T140000" % A], {A}),
    "P8": ("VEVENT/VALARM", ["TRIGGER;VALUE=DATE-TIME;TZID=%s:20240601T093000" % B], {B}),
    "P9": ("VEVENT/X-COMP/X-INNER", ["DTSTART;TZID=%s:20240601T100000" % D], {D}),
    "P10": ("VJOURNAL", ["X-FOO;TZID=%s:bar" % A], {A}),
    # an "unclean" id the provider resolves after stripping the slash: the VTIMEZONE must carry the id as used
    "P11": ("VEVENT", ["EXDATE;TZID=/%s:20240605T100000" % D], {"/" + D}),
    # an explicit TZID=UTC parameter is a TZID parameter like any other (the provider knows UTC)
    "P12": ("VTODO", ["DTSTART;TZID=UTC:20240601T080000"], {"UTC"}),
    "P13": ("VEVENT", ['DTEND;TZID="%s":20240601T130000' % W], {W}),
    # an empty TZID parameter is a TZID parameter (no VTIMEZONE can have the id "", a VTIMEZONE without TZID does not)
    "P14": ("VJOURNAL", ["DTSTART;TZID=:20240601T100000"], {""}),
    # TZID parameters on values that are not date-times (a DATE, a PERIOD): still TZID parameters of the calendar
    "P15": ("VEVENT", ["DTSTART;VALUE=DATE;TZID=%s:20240601" % B], {B}),
    "P16": ("VTODO", ["DUE;VALUE=DATE;TZID=%s:20240601" % D], {D}),
    "P17": ("VEVENT", ["X-DAY;VALUE=DATE;TZID=%s:20240601" % C], {C}),
    "P20": ("VEVENT", ["RDATE;VALUE=PERIOD;TZID=%s:20240601T100000/PT1H" % A], {A}),
}
OUTSIDE_SUBSETS = ("P13", "P14", "P15", "P16", "P17", "P20")
PRESETS = ("tzA", "tzA2", "tzT", "tzC", "tzX", "tzNoId")
# outside the subset enumeration: "tzW" (id that needs quoting), "tzBn" (VTIMEZONE of B nested inside an unknown component)

_VTZ_CACHE = {}


def vtz_text(tzid):
    """VTIMEZONE text for the presets (harness-side cache only; generated once per process and provider)."""
    key = (tzp.name, tzid)
    if key not in _VTZ_CACHE:
        if tzid in (C, X_UNUSED, None, W):
            esc = tzid.replace(",", "\\,").replace(";", "\\;") if tzid else tzid
            lines = ["BEGIN:VTIMEZONE"] + ([f"TZID:{esc}"] if tzid else []) + [
                "BEGIN:STANDARD", "DTSTART:19701025T030000", "TZOFFSETFROM:+0200", "TZOFFSETTO:+0100", "TZNAME:XST",
                "END:STANDARD", "END:VTIMEZONE"]
            _VTZ_CACHE[key] = "\r\n".join(lines) + "\r\n"
        else:
            _VTZ_CACHE[key] = Timezone.from_tzid(tzid, first_date=WINDOW[0], last_date=WINDOW[1]).to_ical().decode()
    return _VTZ_CACHE[key]


def preset_ids(presets):
    ids = []
    for p in presets:
        ids.append({"tzA": A, "tzA2": A, "tzT": T_UNUSED, "tzC": C, "tzX": X_UNUSED, "tzNoId": None, "tzW": W, "tzBn": B}[p])
    return ids


def build_text(placements, presets):
    """A calendar text: VTIMEZONEs first, then one component per top-level kind holding the placement lines."""
    body = []
    for pname, tzid in zip(presets, preset_ids(presets)):
        if pname == "tzBn":  # "in the calendar" is not "a direct child of the calendar"
            body.append("BEGIN:X-WRAP\r\n" + vtz_text(tzid).rstrip("\r\n") + "\r\nEND:X-WRAP")
        else:
            body.append(vtz_text(tzid).rstrip("\r\n"))
    tree = {}
    for p in placements:
        path, lines, _ = PLACEMENTS[p]
        tree.setdefault(path, []).extend(lines)
    tops = {}
    for path, lines in tree.items():
        tops.setdefault(path.split("/")[0], {})[path] = lines
    for top, paths in tops.items():
        body.append(f"BEGIN:{top}")
        body.append("UID:u-" + top)
        body += paths.get(top, [])
        nested = sorted(p for p in paths if p != top)
        for path in nested:
            parts = path.split("/")[1:]
            for n in parts:
                body.append(f"BEGIN:{n}")
            body += paths[path]
            for n in reversed(parts):
                body.append(f"END:{n}")
        body.append(f"END:{top}")
    return "\r\n".join(["BEGIN:VCALENDAR", "VERSION:2.0", "PRODID:c18"] + body + ["END:VCALENDAR"]) + "\r\n"


def build_api(placements, presets):
    cal = Calendar()
    cal.add("version", "2.0")
    cal.add("prodid", "c18")
    for pname, tzid in zip(presets, preset_ids(presets)):
        vt = Timezone.from_ical(vtz_text(tzid))
        if pname == "tzBn":
            wrap = Component()
            wrap.name = "X-WRAP"
            wrap.add_component(vt)
            cal.add_component(wrap)
        else:
            cal.add_component(vt)
    comps = {}

    def get(path):
        if path in comps:
            return comps[path]
        parts = path.split("/")
        name = parts[-1]
        cls = {"VEVENT": Event, "VTODO": Todo, "VALARM": Alarm, "VFREEBUSY": FreeBusy, "VJOURNAL": Journal}.get(name)
        if cls:
            c = cls()
        else:
            c = Component()
            c.name = name
        if len(parts) == 1:
            c.add("uid", "u-" + name)
            cal.add_component(c)
        else:
            get("/".join(parts[:-1])).add_component(c)
        comps[path] = c
        return c

    za, zb, zd = ZoneInfo(A), ZoneInfo(B), ZoneInfo(D)
    for p in placements:
        path = PLACEMENTS[p][0]
        c = get(path)
        if p == "P1":
            c.add("dtstart", datetime(2024, 6, 1, 10, tzinfo=za))
        elif p == "P2":
            c.add("dtend", datetime(2024, 6, 1, 12, tzinfo=zb))
        elif p == "P3":
            c.add("due", datetime(2024, 6, 1, 10, tzinfo=za))
        elif p == "P4":
            c.add("recurrence-id", datetime(2024, 6, 1, 10), parameters={"TZID": C})
        elif p == "P5":
            c.add("rdate", [datetime(2024, 6, 2, 10, tzinfo=za), datetime(2024, 6, 3, 10, tzinfo=za)])
            c.add("rdate", [datetime(2024, 6, 4, 10, tzinfo=zb)])
        elif p == "P6":
            c.add("exdate", [datetime(2024, 6, 2, 10, tzinfo=zb)])
        elif p == "P7":
            c.add("freebusy", [(datetime(2024, 6, 1, 10, tzinfo=za), timedelta(hours=1)),
                               (datetime(2024, 6, 1, 13, tzinfo=za), datetime(2024, 6, 1, 14, tzinfo=za))])
        elif p == "P8":
            c.add("trigger", datetime(2024, 6, 1, 9, 30, tzinfo=zb))
        elif p == "P9":
            c.add("dtstart", datetime(2024, 6, 1, 10, tzinfo=zd))
        elif p == "P10":
            c.add("x-foo", "bar", parameters={"TZID": A})
        elif p == "P11":
            c.add("exdate", [datetime(2024, 6, 5, 10)], parameters={"TZID": "/" + D})
        elif p == "P12":
            c.add("dtstart", datetime(2024, 6, 1, 8), parameters={"TZID": "UTC"})
        elif p == "P13":
            c.add("dtend", datetime(2024, 6, 1, 13), parameters={"TZID": W})
        elif p == "P14":
            c.add("dtstart", datetime(2024, 6, 1, 10), parameters={"TZID": ""})
        elif p == "P15":
            c.add("dtstart", date(2024, 6, 1), parameters={"TZID": B})
        elif p == "P16":
            c.add("due", date(2024, 6, 1), parameters={"TZID": D})
        elif p == "P17":
            c.add("x-day", vDDDTypes(date(2024, 6, 1)), parameters={"TZID": C})
        elif p == "P20":
            c.add("rdate", [(datetime(2024, 6, 1, 10, tzinfo=za), timedelta(hours=1))])
    return cal


def window_args(window):
    """The optional bounds are documented as date or datetime 'earlier/later than anything that happens in the calendar'."""
    if window and isinstance(window[0], str):
        kind = window[0]
        a, b = datetime(2024, 1, 1), datetime(2025, 1, 1, 12, 30)
        if kind == "naive":
            return a, b
        if kind == "aware-utc":
            from datetime import timezone as _tz
            return a.replace(tzinfo=_tz.utc), b.replace(tzinfo=_tz.utc)
        if kind == "aware-zoned":
            return tzp.localize(a, B), tzp.localize(b, B)
        # narrow windows: an event's own start and end on one day, one date twice, two neighbouring dates
        if kind == "same-day":
            return datetime(2024, 6, 1, 9, 0), datetime(2024, 6, 1, 17, 0)
        if kind == "same-date":
            return date(2024, 6, 1), date(2024, 6, 1)
        if kind == "two-days":
            return date(2024, 6, 1), date(2024, 6, 2)
        # bounds that fall on the very day one of the used zones changes its offset (Berlin 2024-03-31 / 2024-10-27, New York
        # 2024-03-10 / 2024-11-03), as the only change of that kind in the window
        sw = {"to-switch-a": (date(2024, 1, 1), date(2024, 3, 31)), "to-switch-b": (date(2024, 6, 1), date(2024, 11, 3)),
              "on-switch-a": (date(2024, 3, 31), date(2024, 3, 31)), "from-switch-a": (date(2024, 10, 27), date(2024, 12, 1)),
              "from-switch-b": (date(2024, 3, 10), date(2024, 10, 1)), "switch-to-switch": (date(2024, 3, 10), date(2024, 10, 27))}
        if kind in sw:
            return sw[kind]
        raise AssertionError(kind)
    return window


def tz_ids_present(cal):
    out = []
    for c in cal.walk("VTIMEZONE"):
        out.append(str(c["TZID"]) if "TZID" in c else None)
    return out


def fail(cls, case, expected, observed):
    return {"cls": cls, "case": case, "expected": expected, "observed": observed, "size": len(repr(case)),
            "unit_test": ("import sys; sys.path[:0] = ['/verif', '/repo/src']\nfrom mc.checks import c18\n"
                          f"r = c18.replay({case!r})\nfor f in r['fails']: print(f['cls'], f['expected'], f['observed'])\n")}


def attempt(fn):
    try:
        return ("ok", fn())
    except Exception as e:  # noqa: BLE001
        return ("raised", f"{type(e).__name__}: {e}")


def run_case(case):
    _, provider, how, placements, presets, window = case
    env.use_provider(provider)
    fails = []
    if how == "parse":
        cal = Calendar.from_ical(build_text(placements, presets))
    else:
        cal = build_api(placements, presets)
    used = set().union(*[PLACEMENTS[p][2] for p in placements]) if placements else set()
    present = [i for i in preset_ids(presets)]
    missing = used - {i for i in present if i}
    trans = 0
    got_used = attempt(cal.get_used_tzids)
    got_missing = attempt(cal.get_missing_tzids)
    trans += 2
    if got_used != ("ok", used):
        fails.append(fail("used-set", case, sorted(used), got_used))
    if got_missing != ("ok", missing):
        fails.append(fail("missing-set", case, sorted(missing), got_missing))
    before = [(id(c), c.to_ical()) for c in cal.walk("VTIMEZONE")]
    n_sub_before = len(cal.subcomponents)
    known_missing = {i for i in missing if i not in (C, W, "")}
    outcome = "ok"
    for k in range(3):
        r = attempt(lambda: cal.add_missing_timezones(*window_args(window)) if window else cal.add_missing_timezones())
        trans += 1
        if r[0] != "ok":
            fails.append(fail("add_missing_timezones-raises", case, "returns", r))
            break
        ids_now = tz_ids_present(cal)
        for i in sorted(known_missing):
            if ids_now.count(i) != 1:
                fails.append(fail("missing-known-id-not-added-exactly-once", case, (i, 1), (i, ids_now.count(i), f"after call {k + 1}")))
        for i in set(present):
            if ids_now.count(i) != present.count(i):
                fails.append(fail("pre-existing-timezones-changed", case, (i, present.count(i)), (i, ids_now.count(i))))
        if len(cal.subcomponents) != n_sub_before + len(known_missing):
            fails.append(fail("subcomponent-count", case, n_sub_before + len(known_missing), (len(cal.subcomponents), f"after call {k + 1}")))
        still = attempt(cal.get_missing_tzids)
        want_still = missing & {C, W, ""}
        if still != ("ok", want_still):
            fails.append(fail("missing-after-add", case, sorted(want_still), still))
        u2 = attempt(cal.get_used_tzids)
        if u2 != ("ok", used):
            fails.append(fail("used-set-after-add", case, sorted(used), u2))
        after = [(id(c), c.to_ical()) for c in cal.walk("VTIMEZONE")][:len(before)]
        if after != before and not any(f["cls"] == "pre-existing-timezones-changed" for f in fails):
            fails.append(fail("pre-existing-timezones-modified", case, "untouched", "changed"))
        if fails:
            break
    # the result must still serialise and, for added zones, carry the right TZID
    out = attempt(cal.to_ical)
    if out[0] != "ok":
        fails.append(fail("to_ical-after-add", case, "bytes", out))
    return {"state": (provider, how, tuple(sorted(used)), tuple(map(str, present))), "trans": trans,
            "nontrivial": bool(used) and (bool(presets) or bool(missing)), "outcome": outcome if not fails else "FAIL", "fails": fails}


replay = run_case


def run(ctx):
    maxp = 3
    ctx.rule = (f"E-enum: every subset of <={maxp} of 12 zoned-value placements (depth 1-3, incl. two RDATE lines with "
                "different zones, FREEBUSY periods, a zoned TRIGGER in a nested alarm, an X- property, an explicit TZID=UTC) x every subset of 6 "
                "pre-existing VTIMEZONEs (quick: triples only with 0, 1 or all 6 of them) x {parsed text, API-built} under zoneinfo; under pytz all subsets of <=2 placements x "
                "all VTIMEZONE subsets (parsed) ; then get_used, get_missing, 3 x add_missing_timezones (window 2024 given as dates, for a reduced set also as naive / UTC / zoned datetimes under both providers; default "
                "window for single placements). non-trivial = some zone used and (a VTIMEZONE present or something missing).")
    ctx.bounds = {"placements": len(PLACEMENTS), "max_placements": maxp, "vtimezone_presets": list(PRESETS)}
    ctx.assumptions += ["the used set is the set of TZID *parameters*; a list value built from several zones carries one TZID (C02)",
                        "for ids with duplicate pre-existing VTIMEZONEs 'exactly one' is read as 'none added'"]
    pl = [p for p in PLACEMENTS if p not in OUTSIDE_SUBSETS]

    def subsets(items, k):
        for n in range(0, k + 1):
            yield from itertools.combinations(items, n)

    def gen():
        for presets in subsets(PRESETS, len(PRESETS)):
            for placements in subsets(pl, maxp):
                if ctx.quick and len(placements) == 3 and len(presets) not in (0, 1, 6):
                    continue  # quick: triples of placements only with none / one / all pre-existing VTIMEZONEs
                for how in ("parse", "api"):
                    yield ("c", "zoneinfo", how, placements, presets, WINDOW)
            for placements in subsets(pl, 2 if not ctx.quick else 1):
                yield ("c", "pytz", "parse", placements, presets, WINDOW)
        for placements in subsets(pl, 1):
            for presets in ((), ("tzA",), ("tzT", "tzNoId")):
                yield ("c", "zoneinfo", "parse", placements, presets, None)
        # the VTIMEZONE of a used id nested inside another component of the calendar
        for provider in env.PROVIDERS:
            for how in ("parse", "api"):
                for placements in (("P2",), ("P1", "P2"), ("P6", "P8")):
                    for presets in (("tzBn",), ("tzA", "tzBn"), ("tzBn", "tzT")):
                        yield ("c", provider, how, placements, presets, WINDOW)
        # an id that needs quoting (parameter) and escaping (TZID property), with and without its own VTIMEZONE
        for provider in env.PROVIDERS:
            for how in ("parse", "api"):
                for placements in (("P13",), ("P1", "P13"), ("P13", "P4")):
                    for presets in ((), ("tzW",), ("tzW", "tzA"), ("tzA", "tzW", "tzC")):
                        yield ("c", provider, how, placements, presets, WINDOW)
        for provider in env.PROVIDERS:
            for how in ("parse", "api"):
                for placements in (("P14",), ("P1", "P14")):
                    for presets in ((), ("tzNoId",), ("tzA", "tzNoId"), ("tzNoId", "tzA")):
                        yield ("c", provider, how, placements, presets, WINDOW)
        for provider in env.PROVIDERS:
            for how in ("parse", "api"):
                for placements in (("P15",), ("P16",), ("P17",), ("P20",), ("P1", "P15"), ("P15", "P16", "P17"), ("P16", "P20", "P4")):
                    for presets in ((), ("tzA",), ("tzC", "tzT")):
                        yield ("c", provider, how, placements, presets, WINDOW)
        # the window bounds given as naive / aware datetimes instead of dates
        for provider in env.PROVIDERS:
            for placements in list(subsets(pl, 1)) + [("P1", "P2"), ("P5", "P9")]:
                for presets in ((), ("tzA",)):
                    for kind in ("naive", "aware-utc", "aware-zoned", "same-day", "same-date", "two-days", "to-switch-a", "to-switch-b", "on-switch-a",
                                 "from-switch-a", "from-switch-b", "switch-to-switch"):
                        yield ("c", provider, "parse", placements, presets, (kind,))

    ctx.explore("calendars x histories", gen, run_case)
