"""C02 - a calendar built through the API survives serialise and parse intact.

(A) E-enum: every RFC 5545 property name x every Python value of its documented kinds x a menu of parameter maps x
    containers (the RFC's + an unknown component) x build path {add, item assignment of the typed value, property setter}
    x provider.  Oracle on T' = parse(T.to_ical()): same nesting and property names; parameters = supplied (+ only VALUE /
    TZID tags); the value decodes to the supplied Python value; the class corresponds to the RFC type of the name
    (refmodel/rfc_props.py); tag clause on the emitted line: VALUE matches the value text whenever it is not the
    property's default type, a zoned value carries TZID = its own zone key, UTC is Z without TZID.
(B) multi-valued order: every name the RFC lets repeat, three values, order preserved.
(C) E-hist: every call sequence of length <= d over a 12-call menu (add of repeated / distinct names, item assignment,
    add_component + descend / ascend); model = plain tree of (NAME, values in insertion order).
(D) values zoned by a VTIMEZONE the caller built through the API (tzinfo from Timezone.to_tz with and without provider
    lookup), in 6 date-time properties, the calendar built once or twice in the same process, both providers.
Known finding `C02-list-mixed-zones` (open): one date list holding date-times of different zones is emitted under the
last zone's TZID (the list type carries a single TZID).
"""
import itertools
import re
from datetime import date, datetime, timedelta, timezone

from mc import env
from mc.refmodel import rfc_props as RP
from mc.refmodel import rfc_text as RT
from mc.refmodel import rfc_values as RV
from mc.snapshot import tzkey

from icalendar.cal import (Calendar, Event, Todo, Journal, FreeBusy, Timezone, TimezoneStandard, TimezoneDaylight, Alarm,
                           Component, component_factory, types_factory)
from icalendar.timezone import tzp

from mc.userkinds import Stamp, Day  # noqa: E402

UTC = timezone.utc
PLAIN_CLASSES = {k.upper(): v for k, v in component_factory.items()}  # the library's own classes, whatever is registered later
ZA, ZB = "Europe/Berlin", "America/New_York"
PARAMS = ({}, {"X-P": "plain"}, {"ALTREP": "http://x/y;z"}, {"MEMBER": ["mailto:a@x", "mailto:b@x"]}, {"x-Mixed": "v"},
          # "arbitrary parameters": an empty value, RFC 6868 look-alikes (written raw, must come back raw), a non-BMP character
          {"X-EMPTY": "", "X-CARET": "Fermat a^n+b^n=c^n 2^^3 it^'s", "X-ASTRAL": "\U0001F600"})


def zoned(z, *a):
    return tzp.localize(datetime(*a), z)


def zoned_dateutil(z, *a):
    import dateutil.tz
    return datetime(*a, tzinfo=dateutil.tz.gettz(z))


def zoned_other(z, *a):
    """A value whose tzinfo comes from the library that is NOT the active provider's."""
    if tzp.name == "zoneinfo":
        import pytz
        return pytz.timezone(z).localize(datetime(*a))
    import zoneinfo
    return datetime(*a, tzinfo=zoneinfo.ZoneInfo(z))


def values_for(name):
    """-> list of (label, python value builder)."""
    typ, alts, is_list, _ = RP.PROPS[name]
    v = []
    if name == "TZID":
        return [("id", lambda: "Custom/Zone-1")]
    if name == "CATEGORIES":
        return [("list", lambda: ["a", "b c"]), ("single", lambda: "single"), ("semi", lambda: ["x;y", "z"]),
                ("blanks", lambda: ["Projects", " - sub project", "\tTabbed", " ", "trailing "])]
    if typ == "TEXT":
        return [("plain", lambda: "plain"), ("special", lambda: "a;b,c\nd"), ("empty", lambda: ""), ("feff", lambda: "\ufeffx\u00a0")]
    if typ == "URI":
        return [("http", lambda: "http://example.com/x?y=1"), ("cid", lambda: "CID:abc")]
    if typ == "CAL-ADDRESS":
        return [("mailto", lambda: "mailto:a@example.com")]
    if typ == "INTEGER":
        return [("0", lambda: 0), ("5", lambda: 5), ("-1", lambda: -1)]
    if typ == "FLOATPAIR":
        return [("geo", lambda: (37.386013, -122.082932)), ("zero", lambda: (0.0, -0.5))]
    if typ == "RECUR":
        return [("daily", lambda: {"freq": "daily", "count": 3}), ("yearly", lambda: {"freq": "yearly", "bymonth": [3], "byday": "-1SU"}),
                # scalars that are falsy (minute 0, second 0) next to lists: parts like any other
                ("zero-scalars", lambda: {"freq": "daily", "byhour": 9, "byminute": 0, "bysecond": 0}),
                ("zero-lists", lambda: {"freq": "hourly", "byminute": [0, 30], "bysecond": [0]})]
    if typ == "UTC-OFFSET":
        return [("+1h", lambda: timedelta(hours=1)), ("-5:30", lambda: -timedelta(hours=5, minutes=30)), ("+5:45:30", lambda: timedelta(hours=5, minutes=45, seconds=30))]
    if typ == "PERIOD":  # FREEBUSY
        return [("utc-explicit", lambda: (datetime(2024, 3, 1, 8, tzinfo=UTC), datetime(2024, 3, 1, 9, tzinfo=UTC))),
                ("utc-duration", lambda: (datetime(2024, 3, 1, 8, tzinfo=UTC), timedelta(hours=1))),
                ("two", lambda: [(datetime(2024, 3, 1, 8, tzinfo=UTC), timedelta(hours=1)), (datetime(2024, 3, 2, 8, tzinfo=UTC), datetime(2024, 3, 2, 9, 30, tzinfo=UTC))]),
                ("zoned", lambda: (zoned(ZA, 2024, 3, 1, 8), zoned(ZA, 2024, 3, 1, 9))),
                ("early", lambda: (datetime(800, 12, 25, 9, tzinfo=UTC), timedelta(hours=1)))]
    if typ == "DURATION":
        v = [("1h", lambda: timedelta(hours=1)), ("-15m", lambda: timedelta(minutes=-15)), ("1d", lambda: timedelta(days=1)),
             ("zero", lambda: timedelta(0)),
             # negative values with every unit, seconds other than 0 / 30 (a sign applied per part shows here), whole weeks
             ("-15s", lambda: timedelta(seconds=-15)), ("-1h22s", lambda: timedelta(hours=-1, seconds=-22)), ("-2d1s", lambda: timedelta(days=-2, seconds=-1)),
             ("90s", lambda: timedelta(seconds=90)), ("-1w", lambda: timedelta(weeks=-1)), ("2w", lambda: timedelta(weeks=2)), ("-1d23h59m59s", lambda: -timedelta(days=1, hours=23, minutes=59, seconds=59))]
        if "DATE-TIME" in alts:
            v.append(("abs-utc", lambda: datetime(2024, 3, 1, 8, tzinfo=UTC)))
        return v
    if typ == "DATE-TIME" and name in RP.UTC_ONLY:
        v = [("utc", lambda: datetime(2024, 3, 1, 8, 30, 5, tzinfo=UTC)), ("early-utc", lambda: datetime(999, 1, 2, 3, 4, 5, tzinfo=UTC)),
             ("utc-fraction", lambda: datetime(2024, 3, 1, 8, 59, 59, 999999, tzinfo=UTC))]
        if name != "COMPLETED":
            v += [("naive-as-utc", lambda: datetime(2024, 3, 1, 8, 30, 5)), ("zoned-to-utc", lambda: zoned(ZA, 2024, 3, 1, 9, 30, 5)),
                  # zones that are NOT UTC but are at offset zero at that moment: still converted, still written with Z
                  ("zero-offset-zone-to-utc", lambda: zoned("Europe/London", 2024, 1, 15, 10, 30, 0)),
                  ("zero-offset-zone2-to-utc", lambda: zoned("Africa/Abidjan", 2024, 7, 1, 12, 0, 0)),
                  ("zero-offset-other-lib-to-utc", lambda: zoned_other("Europe/Lisbon", 2024, 1, 15, 10, 30, 0)),
                  ("zero-offset-dateutil-to-utc", lambda: zoned_dateutil("Europe/London", 2024, 1, 15, 10, 30, 0))]
        return v
    if typ == "DATE-TIME" and not is_list:
        return [("date", lambda: date(2024, 3, 1)), ("naive", lambda: datetime(2024, 3, 1, 8, 30)),
                ("utc", lambda: datetime(2024, 3, 1, 8, 30, tzinfo=UTC)), ("zoned", lambda: zoned(ZA, 2024, 3, 31, 3, 30)),
                ("zoned-b", lambda: zoned(ZB, 2024, 11, 3, 1, 30)), ("zoned-zero-offset", lambda: zoned("Europe/London", 2024, 1, 15, 10, 30)),
                # tzinfo objects of the other two implementations (dateutil; the provider that is not active)
                ("zoned-dateutil", lambda: zoned_dateutil(ZA, 2024, 3, 31, 3, 30)), ("zoned-other-lib", lambda: zoned_other(ZB, 2024, 11, 3, 3, 30)),
                # the ends of the value domain: years that need zero padding, the last representable second
                ("early-naive", lambda: datetime(800, 12, 25, 9, 30)), ("early-utc", lambda: datetime(999, 1, 2, 3, 4, 5, tzinfo=UTC)),
                ("early-date", lambda: date(33, 4, 3)), ("late-utc", lambda: datetime(9999, 12, 31, 23, 59, 59, tzinfo=UTC)),
                # a fraction of a second: the text has one-second resolution, the value keeps its second (no rounding up)
                ("utc-fraction", lambda: datetime(2024, 3, 1, 8, 59, 59, 999999, tzinfo=UTC)), ("naive-fraction", lambda: datetime(2024, 12, 31, 23, 59, 59, 600000)),
                ("zoned-fraction", lambda: zoned(ZA, 2024, 3, 1, 8, 59, 59).replace(microsecond=500001)),
                # instances of user subclasses of datetime / date (mc/userkinds.py)
                ("utc-subclass", lambda: Stamp(2024, 3, 1, 8, 30, tzinfo=UTC)), ("naive-subclass", lambda: Stamp(2024, 3, 1, 8, 30)), ("date-subclass", lambda: Day(2024, 3, 1))]
    if typ == "DATE-TIME" and is_list:
        v = [("dates", lambda: [date(2024, 3, 1), date(2024, 3, 2)]), ("zoned", lambda: [zoned(ZA, 2024, 3, 1, 8), zoned(ZA, 2024, 3, 2, 8)]),
             ("utc", lambda: [datetime(2024, 3, 1, 8, tzinfo=UTC)]), ("single-naive", lambda: datetime(2024, 3, 1, 8)),
             ("naive-list", lambda: [datetime(2024, 3, 1, 8), datetime(2024, 3, 2, 8)]),
             ("mixed-zones", lambda: [zoned(ZA, 2024, 3, 1, 8), zoned(ZB, 2024, 3, 2, 8)]),
             ("zoned-dateutil", lambda: [zoned_dateutil(ZA, 2024, 3, 1, 8), zoned_dateutil(ZA, 2024, 7, 2, 8)]),
             ("zoned-other-lib", lambda: [zoned_other(ZA, 2024, 3, 1, 8), zoned_other(ZA, 2024, 7, 2, 8)]),
             ("early-naive-list", lambda: [datetime(800, 12, 25, 9, 30), datetime(9999, 12, 31, 23, 59, 59)]),
             ("early-dates", lambda: [date(33, 4, 3), date(999, 12, 31)])]
        if "PERIOD" in alts:
            v += [("periods-zoned", lambda: [(zoned(ZA, 2024, 3, 1, 8), timedelta(hours=1))]),
                  ("periods-utc", lambda: [(datetime(2024, 3, 1, 8, tzinfo=UTC), datetime(2024, 3, 1, 9, tzinfo=UTC))]),
                  ("periods-early", lambda: [(datetime(800, 12, 25, 9, tzinfo=UTC), datetime(801, 1, 1, 9, tzinfo=UTC))])]
        return v
    raise AssertionError(name)


# ------------------------------------------------------------------ canonical python values
def norm_dt(x):
    if isinstance(x, datetime):
        off = x.utcoffset()
        key = tzkey(x.tzinfo)
        if off is not None and off == timedelta(0) and key in ("UTC", "timezone", "utc", "Etc/UTC", "tzutc"):
            key = "UTC"
        return ("dt", x.year, x.month, x.day, x.hour, x.minute, x.second, key, None if off is None else off.total_seconds())
    if isinstance(x, date):
        return ("d", x.year, x.month, x.day)
    if isinstance(x, timedelta):
        return ("td", x.total_seconds())
    if isinstance(x, tuple):
        return tuple(norm_dt(i) for i in x)
    return ("?", repr(x))


def want_value(name, x):
    typ, alts, is_list, _ = RP.PROPS[name]
    if name == "CATEGORIES":
        return tuple([x] if isinstance(x, str) else x)
    if typ == "TEXT":
        return str(x).replace("\r\n", "\n")
    if typ in ("URI", "CAL-ADDRESS"):
        return str(x)
    if typ == "INTEGER":
        return int(x)
    if typ == "FLOATPAIR":
        return (float(x[0]), float(x[1]))
    if typ == "RECUR":
        out = {}
        for k, v in x.items():
            vals = v if isinstance(v, (list, tuple)) else [v]
            out[k.upper()] = tuple(str(i).upper() if isinstance(i, str) else i for i in vals)
        return out
    if typ in ("UTC-OFFSET",):
        return norm_dt(x)
    if name in RP.UTC_ONLY and isinstance(x, datetime):
        x = x.replace(tzinfo=UTC) if x.tzinfo is None else x.astimezone(UTC)
        return norm_dt(x)
    if typ == "PERIOD":
        lst = x if isinstance(x, list) else [x]
        return tuple(norm_dt(p) for p in lst)
    if is_list:
        lst = x if isinstance(x, list) else [x]
        return tuple(norm_dt(i) for i in lst)
    return norm_dt(x)


def got_value(name, vals):
    """vals: list of parsed property values for `name` (one per content line / FREEBUSY item)."""
    typ, alts, is_list, _ = RP.PROPS[name]
    v = vals[0]
    cname = type(v).__name__
    if name == "CATEGORIES":
        return tuple(str(c) for c in v.cats)
    if typ in ("TEXT", "URI", "CAL-ADDRESS"):
        return str(v)
    if typ == "INTEGER":
        return int(v)
    if typ == "FLOATPAIR":
        return (v.latitude, v.longitude)
    if typ == "RECUR":
        out = {}
        for k, val in v.items():
            vs = val if isinstance(val, (list, tuple)) else [val]
            out[k] = tuple(int(i) if isinstance(i, int) and not isinstance(i, bool) else str(i).upper() for i in vs)
        return out
    if typ == "UTC-OFFSET":
        return norm_dt(v.td)
    if typ == "PERIOD":
        return tuple(norm_dt(p.dt) for p in vals)
    if is_list:
        return tuple(norm_dt(d.dt) for d in v.dts) if cname == "vDDDLists" else (norm_dt(v.dt),)
    return norm_dt(v.dt)


# ------------------------------------------------------------------ building
def container(cname):
    """-> (root component to serialise, the component that receives the property)"""
    if cname in ("STANDARD", "DAYLIGHT"):
        tz = Timezone()
        tz.add("tzid", "Custom/Holder")
        sub = TimezoneStandard() if cname == "STANDARD" else TimezoneDaylight()
        tz.add_component(sub)
        if cname == "DAYLIGHT":  # a complete definition: the other observance as a sibling
            other = TimezoneStandard()
            other.add("dtstart", datetime(1970, 10, 25, 3))
            other.add("tzoffsetfrom", timedelta(hours=2))
            other.add("tzoffsetto", timedelta(hours=1))
            other.add("tzname", "STD")
            tz.add_component(other)
        return tz, sub
    if cname == "VTIMEZONE":
        tz = Timezone()
        sub = TimezoneStandard()
        sub.add("dtstart", datetime(1970, 10, 25, 3))
        sub.add("tzoffsetfrom", timedelta(hours=2))
        sub.add("tzoffsetto", timedelta(hours=1))
        tz.add_component(sub)
        return tz, tz
    if cname == "VALARM":
        ev = Event()
        al = Alarm()
        ev.add_component(al)
        return ev, al
    cls = PLAIN_CLASSES.get(cname)
    if cls is None:
        c = Component()
        c.name = cname
        return c, c
    c = cls()
    return c, c


STD_FILL = {"DTSTART": datetime(1970, 10, 25, 3), "TZOFFSETFROM": timedelta(hours=2), "TZOFFSETTO": timedelta(hours=1)}
SETTERS = {("VEVENT", "DTSTART"): "DTSTART", ("VEVENT", "DTEND"): "DTEND", ("VTODO", "DUE"): "DUE", ("VTODO", "DTSTART"): "DTSTART",
           ("VEVENT", "DURATION"): "DURATION", ("VALARM", "DURATION"): "DURATION", ("VALARM", "TRIGGER"): "TRIGGER",
           ("VALARM", "REPEAT"): "REPEAT", ("VEVENT", "DTSTAMP"): "DTSTAMP", ("VFREEBUSY", "DTSTAMP"): "DTSTAMP",
           ("VEVENT", "LAST-MODIFIED"): "LAST_MODIFIED", ("VTIMEZONE", "LAST-MODIFIED"): "LAST_MODIFIED",
           ("STANDARD", "TZOFFSETFROM"): "TZOFFSETFROM", ("STANDARD", "TZOFFSETTO"): "TZOFFSETTO",
           ("DAYLIGHT", "TZOFFSETFROM"): "TZOFFSETFROM", ("DAYLIGHT", "TZOFFSETTO"): "TZOFFSETTO"}


def find(root, cname):
    for c in root.walk():
        if c.name == cname:
            return c
    return None


def line_of(data, name, holder_name):
    """First content line `name` in the output (unfolded)."""
    text = data.decode("utf-8").replace("\r\n ", "")
    out = []
    for ln in text.split("\r\n"):
        head = ln.split(":", 1)[0].split(";", 1)[0]
        if head == name:
            out.append(ln)
    return out


def text_kind(t):
    if RV.RX["PERIOD"].match(t):
        return "PERIOD"
    if RV.RX["DATE-TIME"].match(t):
        return "DATE-TIME"
    if RV.RX["DATE"].match(t):
        return "DATE"
    if RV.RX["DURATION"].match(t):
        return "DURATION"
    return None


def fail(cls, case, expected, observed, known=None):
    f = {"cls": cls, "case": case, "expected": expected, "observed": observed, "size": len(repr(case)),
         "unit_test": ("import sys; sys.path[:0] = ['/verif', '/repo/src']\nfrom mc.checks import c02\n"
                       f"r = c02.replay({case!r})\nfor f in r['fails']: print(f['cls'], f.get('known'), f['expected'], f['observed'])\n")}
    if known:
        f["known"] = known
    return f


def run_prop(case):
    _, provider, path, cname, name, vlabel, pi = case
    env.use_provider(provider)
    fails = []
    x = dict(values_for(name))[vlabel]()
    params = PARAMS[pi]
    root, holder = container(cname)
    if cname in ("STANDARD", "DAYLIGHT"):
        for k, v in STD_FILL.items():
            if k != name:
                holder.add(k, v)
    try:
        if path == "add":
            holder.add(name.lower(), x, parameters=dict(params) if params else None)
        elif path == "setitem":
            if isinstance(x, list) and name not in ("RDATE", "EXDATE", "CATEGORIES"):
                holder[name] = [Component._encode(name, i, dict(params) if params else None) for i in x]
            else:
                holder[name] = Component._encode(name, x, dict(params) if params else None)
        else:
            setattr(holder, SETTERS[(cname, name)], x)
            if params:
                holder[name].params.update(params)
    except Exception as e:  # noqa: BLE001
        return {"state": ("build-raises", name, vlabel), "trans": 1, "outcome": "build-raises", "nontrivial": True,
                "fails": [fail("build-raises", case, "property stored", f"{type(e).__name__}: {e}")]}
    try:
        data = root.to_ical()
        back = type(root).from_ical(data) if type(root) is not Component else Component.from_ical(data)
    except Exception as e:  # noqa: BLE001
        return {"state": ("roundtrip-raises", name, vlabel), "trans": 2, "outcome": "roundtrip-raises", "nontrivial": True,
                "fails": [fail("roundtrip-raises", case, "a parsed tree", f"{type(e).__name__}: {e}")]}
    h2 = find(back, holder.name)
    # nesting and names
    if [c.name for c in back.walk()] != [c.name for c in root.walk()]:
        fails.append(fail("nesting-differs", case, [c.name for c in root.walk()], [c.name for c in back.walk()]))
    if h2 is None or sorted(h2.keys()) != sorted(holder.keys()) or h2.errors:
        fails.append(fail("property-names-differ", case, sorted(holder.keys()), (h2 and sorted(h2.keys()), h2 and h2.errors)))
        return {"state": ("names", name, vlabel), "trans": 3, "outcome": "names-differ", "nontrivial": True, "fails": fails}
    v2 = h2[name]
    vals = v2 if isinstance(v2, list) else [v2]
    typ, alts, is_list, _ = RP.PROPS[name]
    mixed = vlabel == "mixed-zones"
    # type clause
    allowed = set(RP.CLASS_FOR[typ])
    for a in alts:
        allowed |= RP.CLASS_FOR.get(a, set())
    bad_cls = [type(v).__name__ for v in vals if type(v).__name__ not in allowed]
    if bad_cls:
        fails.append(fail("class-does-not-match-RFC-type", case, sorted(allowed), bad_cls))
    # decoded value
    want = want_value(name, x)
    try:
        got = got_value(name, vals)
    except Exception as e:  # noqa: BLE001
        got = f"{type(e).__name__}: {e}"
    if vlabel == "zoned-dateutil":
        # a dateutil tzfile has no id of its own: the library names an equivalent zone (C11: "dateutil: wall time only");
        # wall clock and UTC offset must survive, under SOME zone id
        def anyzone(v):
            if isinstance(v, tuple) and v and v[0] == "dt":
                return v[:7] + ("*",) + v[8:]
            return tuple(anyzone(i) for i in v) if isinstance(v, tuple) else v
        want, got = anyzone(want), anyzone(got)
    if got != want:
        known = None
        if mixed and isinstance(got, tuple) and len(got) == 2 and got[1] == want[1] and got[0][1:7] == want[0][1:7] and got[0][7] == want[1][7]:
            known = "C02-list-mixed-zones"
        fails.append(fail("decoded-value-differs", case, want, got, known))
    # parameters
    for v in vals:
        gotp = {k: (list(map(str, val)) if isinstance(val, (list, tuple)) else str(val)) for k, val in v.params.items()}
        wantp = {k.upper(): val for k, val in params.items()}
        extra = {k: val for k, val in gotp.items() if k not in wantp}
        if any(gotp.get(k) != val for k, val in wantp.items()) or set(extra) - {"VALUE", "TZID"}:
            fails.append(fail("parameters-differ", case, wantp, gotp))
            break
    # tag clause on the emitted lines
    for ln in line_of(data, name, holder.name):
        try:
            _n, plist, vtext = RT.parse_line(ln)
        except RT.LineError as e:
            fails.append(fail("emitted-line-not-RFC", case, "a content line", f"{ln!r}: {e}"))
            continue
        pd = {k.upper(): vs for k, vs, _q in plist}
        default = RP.PROPS[name][0]
        if default in ("DATE-TIME", "DURATION", "PERIOD"):
            kinds = {text_kind(t) for t in vtext.split(",")}
            if len(kinds) == 1 and None not in kinds:
                kind = kinds.pop()
                has = pd.get("VALUE", [None])[0]
                if kind != default and has != kind:
                    fails.append(fail("VALUE-parameter-missing-or-wrong", case, f"VALUE={kind}", ln))
                elif has is not None and has != kind:
                    fails.append(fail("VALUE-parameter-contradicts-value", case, f"VALUE={kind}", ln))
            else:
                fails.append(fail("value-text-not-of-one-RFC-kind", case, "one of DATE/DATE-TIME/PERIOD/DURATION", ln))
        # TZID clause
        xs = x if isinstance(x, list) else [x]
        flat = []
        for i in xs:
            flat.append(i[0] if isinstance(i, tuple) else i)
        zones = set()
        for i in flat:
            if isinstance(i, datetime) and i.tzinfo is not None:
                k = norm_dt(i)[7]
                zones.add(k)
        if name in RP.UTC_ONLY:
            zones = {"UTC"}
        tz = pd.get("TZID", [None])[0]
        starts = [t.split("/")[0] for t in vtext.split(",")]
        if zones == {"UTC"}:
            if tz is not None or not all(s.endswith("Z") for s in starts):
                fails.append(fail("UTC-value-not-Z-without-TZID", case, "Z suffix, no TZID", ln))
        elif vlabel == "zoned-dateutil":
            if tz is None or any(s.endswith("Z") for s in starts):
                fails.append(fail("zoned-value-without-a-TZID", case, "TZID=<a zone equivalent to the dateutil zone>", ln))
        elif len(zones) == 1:
            z = next(iter(zones))
            if tz != z or any(s.endswith("Z") for s in starts):
                fails.append(fail("zoned-value-without-own-TZID", case, f"TZID={z}", ln))
        elif len(zones) > 1:
            last = norm_dt(flat[-1])[7]
            fails.append(fail("zoned-value-without-own-TZID", case, "each value under its own TZID", ln,
                              "C02-list-mixed-zones" if tz == last else None))
        elif not zones and (tz is not None and "TZID" not in {k.upper() for k in params}):
            fails.append(fail("TZID-on-unzoned-value", case, "no TZID", ln))
    ok = not any(not f.get("known") for f in fails)
    return {"state": (provider, path, cname, name, vlabel, pi, data), "trans": 3, "nontrivial": True,
            "outcome": "ok" if not fails else ("known" if ok else "FAIL"), "fails": fails}


# ------------------------------------------------------------------ (B) multi-valued order
MULTI = {"ATTENDEE": ["mailto:a@x", "mailto:b@x", "mailto:c@x"], "COMMENT": ["one", "two", "three"], "ATTACH": ["http://1", "http://2", "http://3"],
         "CONTACT": ["c1", "c2", "c3"], "RELATED-TO": ["r1", "r2", "r3"], "REQUEST-STATUS": ["2.0;ok", "3.1;bad", "2.1;x"],
         "RESOURCES": ["r1", "r2", "r3"], "CATEGORIES": [["a"], ["b", "c"], ["d"]], "RRULE": [{"freq": "daily"}, {"freq": "weekly"}, {"freq": "yearly"}],
         "EXDATE": [[date(2024, 1, 1)], [date(2024, 1, 2)], [date(2024, 1, 3)]], "RDATE": [[date(2024, 2, 1)], [date(2024, 2, 2)], [date(2024, 2, 3)]],
         "FREEBUSY": None, "X-MULTI": ["x1", "x2", "x3"],
         # a falsy first value must not be overwritten by the second
         "DESCRIPTION": ["", "d2", "d3"], "X-EMPTY": ["", "", "e3"]}


def run_multi(case):
    _, provider, cname, name, perm = case
    env.use_provider(provider)
    fails = []
    root, holder = container(cname)
    src = MULTI[name]
    order = [src[i] for i in perm]
    for v in order:
        holder.add(name.lower(), v)
    back = type(root).from_ical(root.to_ical()) if type(root) is not Component else Component.from_ical(root.to_ical())
    h2 = find(back, holder.name)
    v2 = h2.get(name) if h2 is not None else None
    vals = v2 if isinstance(v2, list) else [v2]
    if name in ("EXDATE", "RDATE"):
        got = [tuple(norm_dt(d.dt) for d in v.dts) for v in vals]
        want = [tuple(norm_dt(d) for d in v) for v in order]
    elif name == "CATEGORIES":
        got = [tuple(str(c) for c in v.cats) for v in vals]
        want = [tuple(v) for v in order]
    elif name == "RRULE":
        got = [str(v["FREQ"][0]).upper() for v in vals]
        want = [v["freq"].upper() for v in order]
    else:
        got = [str(v) for v in vals]
        want = [str(v) for v in order]
    if got != want:
        fails.append(fail("multi-valued-order-or-arity", case, want, got))
    return {"state": ("multi", cname, name, tuple(perm)), "trans": 3, "nontrivial": True, "outcome": "multi-ok" if not fails else "FAIL",
            "fails": fails}


# ------------------------------------------------------------------ (C) call sequences
CALLS = (("add", "summary", "s1"), ("add", "comment", ""), ("add", "comment", "c2"), ("add", "COMMENT", "c3"),
         ("add", "attendee", "mailto:a@x"), ("add", "x-foo", "f1"), ("add", "rdate", [date(2024, 1, 1)]),
         ("set", "SUMMARY", "s2"), ("set", "X-FOO", "f2"), ("sub", "VALARM"), ("sub", "X-SUB"), ("up",))


def run_calls(case):
    _, seq = case
    env.use_provider("zoneinfo")
    fails = []
    root = Event()
    cur = [root]
    model = ["VEVENT", {}, []]
    mcur = [model]
    for ci in seq:
        call = CALLS[ci]
        if call[0] == "add":
            cur[-1].add(call[1], call[2])
            mcur[-1][1].setdefault(call[1].upper(), []).append(call[2])
        elif call[0] == "set":
            cur[-1][call[1]] = types_factory.for_property(call[1])(call[2])
            mcur[-1][1][call[1].upper()] = [call[2]]
        elif call[0] == "sub":
            cls = PLAIN_CLASSES.get(call[1].upper())
            c = cls() if cls else Component()
            if not cls:
                c.name = call[1]
            cur[-1].add_component(c)
            cur.append(c)
            node = [call[1], {}, []]
            mcur[-1][2].append(node)
            mcur.append(node)
        elif call[0] == "up" and len(cur) > 1:
            cur.pop()
            mcur.pop()
    back = Event.from_ical(root.to_ical())

    def shape(c):
        props = {}
        for k in c.keys():
            v = c[k]
            vs = v if isinstance(v, list) else [v]
            props[k] = [tuple(norm_dt(d.dt) for d in x.dts) if type(x).__name__ == "vDDDLists" else str(x) for x in vs]
        return [c.name, props, [shape(s) for s in c.subcomponents]]

    def mshape(n):
        props = {k: [tuple(norm_dt(d) for d in x) if isinstance(x, list) else str(x) for x in vs] for k, vs in n[1].items()}
        return [n[0], props, [mshape(s) for s in n[2]]]
    if shape(back) != mshape(model):
        fails.append(fail("call-sequence-tree-differs", case, mshape(model), shape(back)))
    return {"state": ("calls", tuple(seq), repr(shape(back))), "trans": len(seq) + 2, "nontrivial": len(seq) >= 2,
            "outcome": "calls-ok" if not fails else "FAIL", "fails": fails}


# ---------------------------------------------------------------- (D) values zoned by a VTIMEZONE the caller built
CUSTOM_ID = "Custom/C02-Office"
CUSTOM_PROPS = ("dtstart", "dtend", "due", "recurrence-id", "rdate", "exdate")


def custom_vtimezone(dst):
    vt = Timezone()
    vt.add("tzid", CUSTOM_ID)
    st = TimezoneStandard()
    st.add("dtstart", datetime(1970, 10, 25, 3))
    st.add("tzoffsetfrom", timedelta(hours=4 if dst else 3))
    st.add("tzoffsetto", timedelta(hours=3))
    st.add("tzname", "OST")
    if dst:
        st.add("rrule", {"freq": "yearly", "bymonth": 10, "byday": "-1SU"})
        dl = TimezoneDaylight()
        dl.add("dtstart", datetime(1970, 3, 29, 2))
        dl.add("tzoffsetfrom", timedelta(hours=3))
        dl.add("tzoffsetto", timedelta(hours=4))
        dl.add("tzname", "ODT")
        dl.add("rrule", {"freq": "yearly", "bymonth": 3, "byday": "-1SU"})
        vt.add_component(dl)
    vt.add_component(st)
    return vt


def run_custom(case):
    """('custom', provider, how the tzinfo is obtained, dst?, property, n calendars built one after the other)"""
    _, provider, how, dst, pname, rounds = case
    env.use_provider(provider)
    fails = []
    trans = 0
    for rnd in range(rounds):
        vt = custom_vtimezone(dst)
        tz = vt.to_tz() if how == "to_tz" else vt.to_tz(tzp, lookup_tzid=False)
        wall = datetime(2024, 7, 1, 9, 30)
        value = wall.replace(tzinfo=tz) if provider == "zoneinfo" else tz.localize(wall)
        want_off = timedelta(hours=4 if dst else 3)
        cal = Calendar()
        cal.add("version", "2.0")
        cal.add("prodid", "c02")
        cal.add_component(vt)
        comp = Todo() if pname == "due" else Event()
        comp.add("uid", "u")
        comp.add(pname, [value] if pname in ("rdate", "exdate") else value)
        cal.add_component(comp)
        data = cal.to_ical()
        trans += 2
        line = [ln for ln in data.decode().replace("\r\n ", "").split("END:VTIMEZONE")[-1].split("\r\n") if ln.upper().startswith(pname.upper())]
        if len(line) != 1 or f";TZID={CUSTOM_ID}:" not in line[0]:
            fails.append(fail("custom:line-lacks-own-TZID", case, f"{pname.upper()};TZID={CUSTOM_ID}:20240701T093000", line))
        try:
            back = Calendar.from_ical(data)
            got = back.subcomponents[-1][pname.upper()]
            got = got.dts[0].dt if pname in ("rdate", "exdate") else got.dt
            trans += 1
        except Exception as e:  # noqa: BLE001
            fails.append(fail("custom:parse-raises", case, "a calendar", f"{type(e).__name__}: {e}"))
            break
        obs = (got.replace(tzinfo=None), got.utcoffset())
        if obs != (wall, want_off):
            fails.append(fail("custom:zoned-value-does-not-come-back", case, (str(wall), str(want_off), f"round {rnd + 1}"),
                              (str(obs[0]), str(obs[1]))))
            break
    return {"state": ("custom", provider, how, dst, pname, rounds, len(fails)), "trans": trans, "nontrivial": True,
            "outcome": "custom-ok" if not fails else "FAIL", "fails": fails}


def run_registered(case):
    """('reg', provider, route, spelling, container): an application registers value types for its own X- properties - through the
    module's factory instance or through the class attribute the package exports - and then uses them like any other."""
    _, provider, route, spelling, cname = case
    env.use_provider(provider)
    from icalendar.prop import TypesFactory, vInt
    import icalendar.cal as _cal
    table = _cal.types_factory.types_map if route == "instance" else TypesFactory.types_map
    keys = {"upper": ("X-REG-WHEN", "X-REG-COUNT", "X-REG-WAIT"), "lower": ("x-reg-when", "x-reg-count", "x-reg-wait"),
            "mixed": ("X-Reg-When", "x-REG-count", "X-reg-Wait")}[spelling]
    fails = []
    when, count, wait = datetime(2024, 3, 9, 12, 30, tzinfo=UTC), 5, timedelta(hours=-1, minutes=-30)
    try:
        table[keys[0]], table[keys[1]], table[keys[2]] = "date-time", "integer", "duration"
        root, holder = container(cname)
        holder.add("x-reg-when", when)
        holder.add("X-REG-COUNT", count)
        holder.add("X-Reg-Wait", wait)
        data = root.to_ical()
        lines = {ln.split(":", 1)[0]: ln for ln in data.decode().replace("\r\n ", "").split("\r\n") if ln.startswith("X-REG")}
        want_lines = {"X-REG-WHEN": "X-REG-WHEN:20240309T123000Z", "X-REG-COUNT": "X-REG-COUNT:5", "X-REG-WAIT": "X-REG-WAIT:-PT1H30M"}
        if lines != want_lines:
            fails.append(fail("registered-type:emitted-lines", case, want_lines, lines))
        back = type(root).from_ical(data) if type(root) is not Component else Component.from_ical(data)
        h2 = find(back, holder.name)
        got = {k: (type(h2[k]).__name__, getattr(h2[k], "dt", None) if k != "X-REG-COUNT" else int(h2[k])) for k in ("X-REG-WHEN", "X-REG-COUNT", "X-REG-WAIT") if k in h2}
        want = {"X-REG-WHEN": ("vDDDTypes", when), "X-REG-COUNT": ("vInt", 5), "X-REG-WAIT": ("vDDDTypes", wait)}
        if got != want:
            fails.append(fail("registered-type:decoded-values", case, repr(want), repr(got)))
        # the same text with the names in another case: same types
        for how in (bytes.lower, bytes.title):
            import re as _re
            re_data = _re.sub(rb"(?m)^X-REG-[A-Z]+", lambda m: how(m.group(0)), data)
            b2 = type(root).from_ical(re_data) if type(root) is not Component else Component.from_ical(re_data)
            h3 = find(b2, holder.name)
            got3 = {k: type(h3[k]).__name__ for k in want if k in h3}
            if got3 != {k: v[0] for k, v in want.items()}:
                fails.append(fail("registered-type:depends-on-name-case", case + (how.__name__,), {k: v[0] for k, v in want.items()}, got3))
                break
    except Exception as e:  # noqa: BLE001
        fails.append(fail("registered-type:raises", case, "a round trip", f"{type(e).__name__}: {e}"))
    finally:
        for k in keys:
            table.pop(k, None)
            _cal.types_factory.types_map.pop(k, None)
    return {"state": ("reg",) + tuple(case[1:]) + (not fails,), "trans": 6, "nontrivial": True, "outcome": "registered-ok" if not fails else "FAIL", "fails": fails}


def run_case(case):
    return {"prop": run_prop, "multi": run_multi, "calls": run_calls, "custom": run_custom, "reg": run_registered}[case[0]](case)


replay = run_case


def run(ctx):
    depth = 4 if ctx.quick else 5
    ctx.rule = ("E-enum (A): 46 RFC 5545 property names x their value menus (text incl. delimiters, int, geo, recur, offsets, "
                "date / floating / UTC / zoned date-times, durations, periods, date lists incl. periods and mixed zones) x 5 "
                "parameter maps x containers (2 from the RFC + X-COMP) x paths {add, item assignment, setter} x 2 providers; (B) all "
                f"6 insertion orders of 3 values for 12 repeatable names; (C) all call sequences of length <= {depth} over a 12-call "
                "menu; (D) zoned values of a caller-built VTIMEZONE x 6 properties x 2 ways to get the tzinfo x {fixed, DST} x 1-2 rounds. non-trivial = every case (each builds, serialises, parses and compares).")
    ctx.bounds = {"names": len(RP.PROPS), "params": len(PARAMS), "call_depth": depth}
    ctx.assumptions += ["component.decoded() is not used as an observer (the library marks it unfinished); typed accessors are",
                        "X- properties are given text values only; ATTACH as BINARY is not generated (alternates: DATE, PERIOD, DATE-TIME)",
                        "COMPLETED is supplied in UTC only"]

    def gen_reg():
        for provider in env.PROVIDERS:
            for route in ("instance", "class"):
                for spelling in ("upper", "lower", "mixed"):
                    for cname in ("VEVENT", "VTODO", "X-COMP", "VALARM"):
                        yield ("reg", provider, route, spelling, cname)

    def gen():
        for provider in env.PROVIDERS:
            for name, (typ, alts, is_list, conts) in RP.PROPS.items():
                for cname in tuple(conts) + ("X-COMP",):
                    for vlabel, _ in values_for(name):
                        for pi in range(len(PARAMS)):
                            if pi and name in ("TZID",):
                                continue
                            yield ("prop", provider, "add", cname, name, vlabel, pi)
                            if pi in (0, 1) and not vlabel.endswith(("-as-utc", "-to-utc")):
                                yield ("prop", provider, "setitem", cname, name, vlabel, pi)
                        if (cname, name) in SETTERS and vlabel not in ("date",) :
                            if name in ("TZOFFSETFROM", "TZOFFSETTO", "REPEAT", "DURATION") or vlabel != "date":
                                yield ("prop", provider, "setter", cname, name, vlabel, 0)
        for provider in env.PROVIDERS:
            for name, src in MULTI.items():
                if src is None:
                    continue
                for cname in ("VEVENT", "X-COMP"):
                    for perm in itertools.permutations(range(3)):
                        yield ("multi", provider, cname, name, perm)
        for n in range(0, depth + 1):
            for seq in itertools.product(range(len(CALLS)), repeat=n):
                yield ("calls", seq)
        for provider in env.PROVIDERS:
            for how in ("to_tz", "to_tz-no-lookup"):
                for dst in (False, True):
                    for pname in CUSTOM_PROPS:
                        for rounds in (1, 2):
                            yield ("custom", provider, how, dst, pname, rounds)

    ctx.explore("properties + order + call sequences", gen, run_case)
    ctx.explore("value types registered by the application", gen_reg, run_case)
