"""C15 - an alarm is active iff not acknowledged at/after its (snoozed) trigger.

E-enum of the complete decision table: trigger T fixed; alarm ACKNOWLEDGED (A), component acknowledgement (C: DTSTAMP,
or X-MOZ-LASTACK on a Thunderbird component) and snooze (S: X-MOZ-SNOOZE-TIME) each absent or T + delta,
delta in {-2h, -1s, -0.3s, 0, +0.4s, +1s, +2h}: every weak ordering of the four instants.  x trigger kind {zoned, UTC, floating,
date, absolute UTC, absolute floating} x local time zone {unset, by name, by object, by an object of the other tz library} x provider x build path {property setters, add() of typed values,
parsed text} x {1, 2} alarms.  One case = one row over all 6 values of A (so monotonicity in A is checked on the
observations themselves); monotonicity in C follows from agreement with the (monotone) model in every cell.
E-hist step per cell: the first alarm's ACKNOWLEDGED is then changed in place to the next value of the menu (or removed) and
both the AlarmTime held from before and a freshly computed one must answer for the new value.
"""
import itertools
from datetime import date, datetime, timedelta, timezone

from mc import env
from mc.refmodel import alarms as M

from icalendar.cal import Event, Todo, Alarm
from icalendar.alarms import Alarms, LocalTimezoneMissing
from icalendar.prop import vDDDTypes
from icalendar.timezone import tzp

UTC = timezone.utc
# increasing (the monotonicity check walks the row in this order); +-0.x s: inside one second - API-built values carry
# microseconds, text has one-second resolution and drops them
DELTAS = (None, timedelta(hours=-2), timedelta(seconds=-1), timedelta(microseconds=-300000), timedelta(0),
          timedelta(microseconds=400000), timedelta(seconds=1), timedelta(hours=2))
KINDS = ("zoned", "utc", "floating", "date", "abs-utc", "abs-floating")  # abs-*: absolute TRIGGER (DATE-TIME)
LOCAL = ("unset", "name", "object", "object-other")  # object-other: a tzinfo of the library that is NOT the active provider
PATHS = ("setters", "add", "parsed", "setters+parsed")
LOCAL_ZONE = "Europe/Berlin"
# T as an instant (floating/date interpreted in LOCAL_ZONE, CEST = +2h on that day)
T_WALL = datetime(2024, 6, 1, 10, 0)
T_INSTANT = {"zoned": datetime(2024, 6, 1, 8, 0, tzinfo=UTC), "utc": datetime(2024, 6, 1, 10, 0, tzinfo=UTC),
             "floating": datetime(2024, 6, 1, 8, 0, tzinfo=UTC), "date": datetime(2024, 5, 31, 22, 0, tzinfo=UTC),
             "abs-utc": datetime(2024, 6, 1, 10, 0, tzinfo=UTC), "abs-floating": datetime(2024, 6, 1, 8, 0, tzinfo=UTC)}


_PARSED = [False]


def inst(kind, delta, shift=timedelta(0)):
    if delta is None:
        return None
    v = T_INSTANT[kind] + shift + delta
    return v.replace(microsecond=0) if _PARSED[0] else v  # the parsed path sees what the text can carry


def build(case, a_delta):
    _, provider, path, kind, local, mode, c_i, s_i, nalarms = case
    _PARSED[0] = path in ("parsed", "setters+parsed")
    comp = Event()
    comp.add("uid", "c15")
    if kind == "zoned":
        comp.start = tzp.localize(T_WALL, LOCAL_ZONE)
    elif kind == "utc":
        comp.start = T_WALL.replace(tzinfo=UTC)
    elif kind == "floating":
        comp.start = T_WALL
    elif kind.startswith("abs"):
        comp.start = datetime(2024, 5, 1, 9, 0, tzinfo=UTC)  # irrelevant for absolute triggers
    else:
        comp.start = date(2024, 6, 1)
    cval = inst(kind, DELTAS[c_i])
    sval = inst(kind, DELTAS[s_i]) if mode == "tb" else None

    def put(target, attr, name, value):
        if value is None:
            return
        if path in ("setters", "setters+parsed"):
            if path == "setters+parsed" and isinstance(value, datetime) and value.tzinfo is not None and (c_i + s_i) % 2:
                # the same instant, written down in another zone: the setters take any aware value for these UTC properties
                value = value.astimezone(tzp.timezone("America/New_York" if nalarms == 2 else LOCAL_ZONE))
            setattr(target, attr, value)
        else:
            target.add(name, vDDDTypes(value))

    if mode == "tb":
        comp.add("X-MOZ-GENERATION", "1")
        # decoy: a Thunderbird component is acknowledged by X-MOZ-LASTACK only, never by its DTSTAMP
        put(comp, "DTSTAMP", "DTSTAMP", T_INSTANT[kind] + timedelta(hours=3))
        put(comp, "X_MOZ_LASTACK", "X-MOZ-LASTACK", cval)
        put(comp, "X_MOZ_SNOOZE_TIME", "X-MOZ-SNOOZE-TIME", sval)
    else:
        put(comp, "DTSTAMP", "DTSTAMP", cval)
    if (c_i + s_i + nalarms) % 2 == 0:
        # decoys: other timestamps of the component are no acknowledgement (only DTSTAMP / X-MOZ-LASTACK are);
        # every value of C, absent included, occurs with and without them
        late = T_INSTANT[kind] + timedelta(hours=3)
        put(comp, "LAST_MODIFIED", "LAST-MODIFIED", late)
        comp.add("CREATED", vDDDTypes(late))
        comp.add("SEQUENCE", 7)
    specs = []
    for i in range(nalarms):
        al = Alarm()
        al.add("action", "DISPLAY")
        if kind.startswith("abs"):
            base = T_WALL if kind == "abs-floating" else T_WALL.replace(tzinfo=UTC)
            al.TRIGGER = base if i == 0 else base - timedelta(hours=1)
        else:
            al.TRIGGER = timedelta(0) if i == 0 else (timedelta(days=-1) if kind == "date" else timedelta(hours=-1))
        ack = inst(kind, a_delta) if i == 0 else inst(kind, DELTAS[(c_i + 1) % len(DELTAS)], timedelta(days=-1) if kind == "date" else timedelta(hours=-1))
        put(al, "ACKNOWLEDGED", "ACKNOWLEDGED", ack)
        comp.add_component(al)
        shift = timedelta(0) if i == 0 else (timedelta(days=-1) if kind == "date" else timedelta(hours=-1))
        specs.append({"T": T_INSTANT[kind] + shift, "A": ack})
    if path in ("parsed", "setters+parsed"):
        comp = Event.from_ical(comp.to_ical())
    return comp, cval, sval, specs


def other_lib_zone():
    if tzp.name == "zoneinfo":
        import pytz
        return pytz.timezone(LOCAL_ZONE)
    import zoneinfo
    return zoneinfo.ZoneInfo(LOCAL_ZONE)


def fresh_first(comp, local):
    alarms = Alarms(comp)
    if local == "name":
        alarms.set_local_timezone(LOCAL_ZONE)
    elif local == "object-other":
        alarms.set_local_timezone(other_lib_zone())
    elif local == "object":
        alarms.set_local_timezone(tzp.timezone(LOCAL_ZONE))
    return alarms.times[0]


def fail(cls, case, expected, observed, a_i):
    return {"cls": cls, "case": case + (a_i,), "expected": expected, "observed": observed, "size": len(repr(case)),
            "unit_test": ("import sys; sys.path[:0] = ['/verif', '/repo/src']\nfrom mc.checks import c15\n"
                          f"r = c15.replay({case + (a_i,)!r})\nfor f in r['fails']: print(f['cls'], f['expected'], f['observed'])\n")}


def run_case(case, only_a=None):
    _, provider, path, kind, local, mode, c_i, s_i, nalarms = case[:9]
    env.use_provider(provider)
    fails = []
    row = []
    n = 0
    needs_local = kind in ("floating", "date", "abs-floating")
    for a_i, a_delta in enumerate(DELTAS):
        if only_a is not None and a_i != only_a:
            continue
        n += 1
        try:
            comp, cval, sval, specs = build(case, a_delta)
            alarms = Alarms(comp)
            if local == "name":
                alarms.set_local_timezone(LOCAL_ZONE)
            elif local == "object":
                alarms.set_local_timezone(tzp.timezone(LOCAL_ZONE))
            elif local == "object-other":
                alarms.set_local_timezone(other_lib_zone())
            times = alarms.times
        except Exception as e:  # noqa: BLE001
            fails.append(fail("building-or-times-raises", case, "alarm times", f"{type(e).__name__}: {e}", a_i))
            row.append("crash")
            continue
        alarm_objs = comp.walk("VALARM")
        if len(times) != len(specs) or any(t.alarm is not a for t, a in zip(times, alarm_objs)):
            fails.append(fail("times-do-not-match-alarms", case, len(specs), len(times), a_i))
            continue
        cell = []
        want_active = []
        for t, s in zip(times, specs):
            model = M.is_active(s["T"], s["A"], cval, sval)
            want_active.append(model)
            missing_tz = needs_local and local == "unset"
            acks = [x for x in (s["A"], cval) if x is not None]
            must_raise = missing_tz and acks and not (sval is not None and sval > max(acks))
            try:
                got = t.is_active()
            except LocalTimezoneMissing:
                got = "LocalTimezoneMissing"
            except Exception as e:  # noqa: BLE001
                got = f"{type(e).__name__}: {e}"
            if missing_tz:
                # the error is permitted only where the answer depends on the (floating) trigger: with nothing
                # acknowledged, or snoozed until after the acknowledgement, the alarm IS active whatever its trigger
                ok = (got == "LocalTimezoneMissing") if must_raise else (got is model)
                want_desc = "LocalTimezoneMissing" if must_raise else model
            else:
                ok = got is model
                want_desc = model
            if not ok:
                fails.append(fail(f"is_active:{kind}:{local}", case, want_desc, got, a_i))
            cell.append(got)
            # reported trigger: snooze later than the trigger moves it
            try:
                trig = t.trigger
                if missing_tz:
                    pass  # floating value without a zone: nothing to compare with instants
                else:
                    eff = M.effective_trigger(s["T"], sval)
                    t_cmp = trig
                    if M.is_date(t_cmp):
                        fails.append(fail("trigger-still-a-date-with-local-zone", case, eff, trig, a_i))
                    elif t_cmp.tzinfo is None or t_cmp != eff:
                        fails.append(fail(f"reported-trigger:{kind}:{local}", case, eff.isoformat(), repr(trig), a_i))
            except LocalTimezoneMissing:
                if not missing_tz:
                    fails.append(fail("trigger-raises-LocalTimezoneMissing-with-zone", case, "a time", "LocalTimezoneMissing", a_i))
            except Exception as e:  # noqa: BLE001
                fails.append(fail(f"trigger-raises:{kind}:{local}", case, "a time or LocalTimezoneMissing", f"{type(e).__name__}: {e}", a_i))
        # active is the sub-list of times, in order
        try:
            act = alarms.active
            got_idx = [[i for i, t in enumerate(times) if t.alarm is x.alarm][0] for x in act]
            if not (needs_local and local == "unset"):
                want_idx = [i for i, w in enumerate(want_active) if w]
                if got_idx != want_idx:
                    fails.append(fail("active-list", case, want_idx, got_idx, a_i))
        except LocalTimezoneMissing:
            if not (needs_local and local == "unset"):
                fails.append(fail("active-raises-LocalTimezoneMissing-with-zone", case, "a list", "LocalTimezoneMissing", a_i))
        except Exception as e:  # noqa: BLE001
            fails.append(fail("active-raises", case, "a list or LocalTimezoneMissing", f"{type(e).__name__}: {e}", a_i))
        # history: the alarm is (un)acknowledged in place after its time was computed - the AlarmTime held from before
        # and a fresh computation must both answer for the alarm's CURRENT ACKNOWLEDGED
        held_cell = None
        if times:
            new_ack = inst(kind, DELTAS[(a_i + 1) % len(DELTAS)])
            al0 = alarm_objs[0]
            try:
                if new_ack is None:
                    al0.pop("ACKNOWLEDGED", None)
                else:
                    al0.ACKNOWLEDGED = new_ack
                model2 = M.is_active(specs[0]["T"], new_ack, cval, sval)
                missing_tz = needs_local and local == "unset"
                acks2 = [x for x in (new_ack, cval) if x is not None]
                must_raise2 = missing_tz and acks2 and not (sval is not None and sval > max(acks2))
                answers = []
                for label, getter in (("held", lambda: times[0]), ("fresh", lambda: fresh_first(comp, local))):
                    try:
                        got2 = getter().is_active()
                    except LocalTimezoneMissing:
                        got2 = "LocalTimezoneMissing"
                    except Exception as e:  # noqa: BLE001
                        got2 = f"{type(e).__name__}: {e}"
                    ok2 = ((got2 == "LocalTimezoneMissing") if must_raise2 else (got2 is model2)) if missing_tz else got2 is model2
                    if not ok2:
                        fails.append(fail(f"is_active-after-ACKNOWLEDGED-changed-in-place:{label}", case,
                                          ("LocalTimezoneMissing" if must_raise2 else model2), got2, a_i))
                    answers.append(got2)
                held_cell = tuple(answers)
            except Exception as e:  # noqa: BLE001
                fails.append(fail("changing-ACKNOWLEDGED-raises", case, "accepted", f"{type(e).__name__}: {e}", a_i))
            cell.append(held_cell)
            # "only the last call counts": resetting the component acknowledgement and the snooze to None on the SAME
            # Alarms object leaves only the alarm's own ACKNOWLEDGED
            try:
                alarms.acknowledge_until(None)
                alarms.snooze_until(None)
                t0 = alarms.times[0]
                model3 = M.is_active(specs[0]["T"], new_ack, None, None)
                missing_tz = needs_local and local == "unset"
                must3 = missing_tz and new_ack is not None
                try:
                    got3 = t0.is_active()
                except LocalTimezoneMissing:
                    got3 = "LocalTimezoneMissing"
                ok3 = ((got3 == "LocalTimezoneMissing") if must3 else (got3 is model3)) if missing_tz else got3 is model3
                if not ok3:
                    fails.append(fail("is_active-after-resetting-acknowledgement-and-snooze-to-None", case,
                                      ("LocalTimezoneMissing" if must3 else model3), got3, a_i))
                cell.append(got3)
            except Exception as e:  # noqa: BLE001
                fails.append(fail("resetting-to-None-raises", case, "accepted", f"{type(e).__name__}: {e}", a_i))
        row.append(tuple(cell))
    # monotonicity in A on the observations: once inactive, later acknowledgements keep it inactive
    if only_a is None:
        seq = [r[0] for r in row if isinstance(r, tuple) and r]
        seq = seq[1:]  # index 0 is "A absent"
        seen_false = False
        for v in seq:
            if v is False:
                seen_false = True
            elif v is True and seen_false:
                fails.append(fail("not-monotone-in-ACKNOWLEDGED", case, "inactive stays inactive", repr(seq), 0))
                break
    return {"n": n, "state": (case[1:], tuple(map(repr, row))), "trans": 4 * n, "traces": n, "nontrivial": True,
            "outcome": "row:" + ("ok" if not fails else "FAIL"), "fails": fails}


# ---------------------------------------------------------------- acknowledge_until() with zoned values around a repeated hour
FOLD_WALLS = ((2, 10, 1), (2, 50, 0), (2, 20, 0), (2, 40, 1), (1, 59, 0), (3, 1, 0))  # (hour, minute, second occurrence?)


def run_manual(case):
    """('m', provider, trigger occurrence 0/1, ack wall index, zone form of the acknowledgement): the trigger lies in the
    repeated hour of 2024-10-27 (Europe/Berlin); the component acknowledgement is given through Alarms.acknowledge_until()
    in the SAME zone (the same tzinfo object where the library has one), in UTC or in another zone: instants decide."""
    _, provider, tocc, ai, form = case[:5]
    op = case[5] if len(case) > 5 else "ack"
    env.use_provider(provider)
    fails = []

    def local(h, m, second):
        w = datetime(2024, 10, 27, h, m)
        if provider == "pytz":
            return tzp.timezone(LOCAL_ZONE).localize(w, is_dst=not second)
        return w.replace(tzinfo=tzp.timezone(LOCAL_ZONE), fold=1 if second else 0)
    trig = local(2, 30, bool(tocc))
    h, m, second = FOLD_WALLS[ai]
    ack = local(h, m, bool(second))
    ack_instant = ack.astimezone(UTC)
    if form == "utc":
        ack = ack_instant
    elif form == "other-zone":
        ack = ack_instant.astimezone(tzp.timezone("America/New_York"))
    comp = Event()
    comp.add("uid", "m")
    comp.start = trig
    al = Alarm()
    al.add("action", "DISPLAY")
    al.TRIGGER = timedelta(0)
    comp.add_component(al)
    if op != "ack":
        # the same menu value as SNOOZE time; the component is acknowledged an hour before / half an hour after the trigger.
        # wall-clock order and real order of trigger and snooze disagree inside the repeated hour: instants decide
        T = trig.astimezone(UTC)
        ack0 = T + (timedelta(hours=-1) if op == "snooze-ack-before" else timedelta(minutes=30))
        want = (M.is_active(T, None, ack0, ack_instant), M.effective_trigger(T, ack_instant))
        try:
            alarms = Alarms(comp)
            alarms.acknowledge_until(ack0)
            alarms.snooze_until(ack)
            t = alarms.times[0]
            got = (t.is_active(), t.trigger.astimezone(UTC))
            if (len(alarms.active) == 1) is not got[0]:
                got = got + ("active list disagrees",)
        except Exception as e:  # noqa: BLE001
            got = f"{type(e).__name__}: {e}"
        if got != want:
            fails.append(fail("snooze_until-zoned-value-around-a-repeated-hour", case, repr(want), repr(got), 0))
        return {"state": ("manual", provider, tocc, ai, form, op, repr(got)), "trans": 4, "nontrivial": True,
                "outcome": "manual-ok" if not fails else "FAIL", "fails": fails}
    want = trig.astimezone(UTC) > ack_instant
    try:
        alarms = Alarms(comp)
        alarms.acknowledge_until(ack)
        got = alarms.times[0].is_active()
        got_list = len(alarms.active) == 1
    except Exception as e:  # noqa: BLE001
        got = got_list = f"{type(e).__name__}: {e}"
    if got is not want or got_list is not want:
        fails.append(fail("acknowledge_until-zoned-value-around-a-repeated-hour", case, want, (got, got_list), 0))
    return {"state": ("manual", provider, tocc, ai, form, repr(got)), "trans": 3, "nontrivial": True,
            "outcome": "manual-ok" if not fails else "FAIL", "fails": fails}


# ---------------------------------------------------------------- acknowledge_until() / snooze_until() called directly
CALL_DELTAS = (timedelta(hours=-5), timedelta(hours=-3), timedelta(minutes=-90), timedelta(seconds=-1), timedelta(0), timedelta(seconds=1),
               timedelta(minutes=90), timedelta(hours=3), timedelta(hours=5))
CALL_FORMS = ("naive", "aware-utc", "zoned", "zoned-ny")
CALL_LOCALS = ("unset", "berlin-name", "ny-object", "utc-name")


def run_calls(case):
    """('k', provider, trigger kind, local zone, local set before/after the call, op, value form, delta index | 'date0' | 'date1').
    Documented: the argument is a time in UTC - a value without tzinfo is read as UTC (a date: its midnight in UTC), whatever
    local time zone the Alarms object was given for FLOATING TRIGGERS; aware values count as their instant."""
    _, provider, tkind, local, order, op, form, di = case
    env.use_provider(provider)
    fails = []
    T = datetime(2024, 6, 1, 10, 0, tzinfo=UTC)
    comp = Event()
    comp.add("uid", "k")
    if tkind == "utc":
        comp.start = T
    else:  # floating 12:00 read in Europe/Berlin (CEST) = 10:00 UTC; needs a local zone
        comp.start = datetime(2024, 6, 1, 12, 0)
    al = Alarm()
    al.add("action", "DISPLAY")
    al.TRIGGER = timedelta(0)
    comp.add_component(al)
    if di == "date0":
        v, inst_v = date(2024, 6, 1), datetime(2024, 6, 1, tzinfo=UTC)
    elif di == "date1":
        v, inst_v = date(2024, 6, 2), datetime(2024, 6, 2, tzinfo=UTC)
    else:
        inst_v = T + CALL_DELTAS[di]
        if form == "naive":
            v = inst_v.replace(tzinfo=None)
        elif form == "aware-utc":
            v = inst_v
        elif form == "zoned":
            v = inst_v.astimezone(tzp.timezone(LOCAL_ZONE))
        else:
            v = inst_v.astimezone(tzp.timezone("America/New_York"))

    def set_local(alarms):
        if local == "berlin-name":
            alarms.set_local_timezone(LOCAL_ZONE)
        elif local == "ny-object":
            alarms.set_local_timezone(tzp.timezone("America/New_York"))
        elif local == "utc-name":
            alarms.set_local_timezone("UTC")
    T_eff = T
    if tkind == "floating":
        T_eff = {"berlin-name": T, "ny-object": datetime(2024, 6, 1, 16, 0, tzinfo=UTC), "utc-name": datetime(2024, 6, 1, 12, 0, tzinfo=UTC)}[local]
        if di not in ("date0", "date1"):
            inst_v = inst_v + (T_eff - T)
            v = v + (T_eff - T)
    ack0 = T_eff + timedelta(hours=1)
    if op == "ack":
        want_active, want_trigger = M.is_active(T_eff, None, inst_v, None), T_eff
    else:
        want_active = M.is_active(T_eff, None, ack0, inst_v)
        want_trigger = M.effective_trigger(T_eff, inst_v)
    try:
        alarms = Alarms(comp)
        alarms.acknowledge_until(None)  # the component's DTSTAMP is absent anyway
        if order == "before":
            set_local(alarms)
        if op == "ack":
            alarms.acknowledge_until(v)
        else:
            alarms.acknowledge_until(ack0)
            alarms.snooze_until(v)
        if order == "after":
            set_local(alarms)
        t = alarms.times[0]
        got = (t.is_active(), t.trigger.astimezone(UTC), len(alarms.active) == 1)
    except Exception as e:  # noqa: BLE001
        got = f"{type(e).__name__}: {e}"
    want = (want_active, want_trigger, want_active)
    if got != want:
        fails.append(fail(f"direct-call:{op}:{form if isinstance(di, int) else 'date'}-value", case, repr(want), repr(got), 0))
    return {"state": ("calls",) + tuple(case[1:]) + (repr(got),), "trans": 4, "nontrivial": True,
            "outcome": "calls-ok" if not fails else "FAIL", "fails": fails}


# ---------------------------------------------------------------- repeating alarms, several of them equal
def run_repeating(case):
    """('rp', provider, copies, how, repeat, step minutes, ack delta minutes | None): one repeating alarm held `copies` times
    (as equal subcomponents, or the very same object added again): the active list is the sub-list of `times` whose
    trigger is later than the acknowledgement - entry by entry."""
    _, provider, copies, how, repeat, step, ackd = case
    env.use_provider(provider)
    fails = []
    T = datetime(2024, 6, 1, 10, 0, tzinfo=UTC)
    comp = Event()
    comp.add("uid", "rp")
    comp.start = T

    def mk():
        al = Alarm()
        al.add("action", "DISPLAY")
        al.TRIGGER = timedelta(0)
        al.REPEAT = repeat
        al.DURATION = timedelta(minutes=step)
        return al
    first = mk()
    comp.add_component(first)
    for _i in range(copies - 1):
        if how == "equal-subcomponents":
            comp.add_component(mk())
    ack = None if ackd is None else T + timedelta(minutes=ackd)
    try:
        alarms = Alarms(comp)
        if how == "same-object-again":
            for _i in range(copies - 1):
                alarms.add_alarm(first)
        alarms.acknowledge_until(ack)
        times = alarms.times
        active = alarms.active
        got_times = sorted(t.trigger for t in times)
        want_times = sorted([T + timedelta(minutes=step * k) for k in range(repeat + 1)] * copies)
        if got_times != want_times:
            fails.append(fail("repeating:times", case, len(want_times), [str(x) for x in got_times][:8], 0))
        want_active = [t for t in times if M.is_active(t.trigger, None, ack, None)]
        if [id(t) for t in active] != [id(t) for t in want_active] and sorted(t.trigger for t in active) != sorted(t.trigger for t in want_active):
            fails.append(fail("repeating:active-list", case, [str(t.trigger) for t in want_active], [str(t.trigger) for t in active], 0))
        if any(not t.is_active() for t in active) or any(t.is_active() != M.is_active(t.trigger, None, ack, None) for t in times):
            fails.append(fail("repeating:is_active-disagrees-with-the-list", case, "every listed time is active", [(str(t.trigger), t.is_active()) for t in active][:6], 0))
        got = (len(times), len(active))
    except Exception as e:  # noqa: BLE001
        got = f"{type(e).__name__}: {e}"
        fails.append(fail("repeating:raises", case, "times and active", got, 0))
    return {"state": ("rp",) + tuple(case[1:]) + (repr(got),), "trans": 4, "nontrivial": True, "outcome": "repeating-ok" if not fails else "FAIL", "fails": fails}


def replay(case):
    if case[0] == "rp":
        return run_repeating(case[:7])
    if case[0] == "k":
        return run_calls(case[:8])
    if case[0] == "m":
        return run_manual(case[:6] if len(case) > 6 else case[:5])
    return run_case(case[:9], case[9] if len(case) > 9 else None)


def run(ctx):
    ctx.rule = ("E-enum of the decision table: A, C, S each absent or T+{-2h,-1s,-0.3s,0,+0.4s,+1s,+2h} (8x8x8, every weak ordering incl. "
                "equalities; S only on Thunderbird-marked components) x trigger kind {zoned, UTC, floating, date, absolute UTC, absolute floating} x local zone "
                "{unset, by name, by object, by an object of the other tz library} x provider x build path {setters, add typed, parsed} x {1,2} alarms. One case = a "
                "row over all 6 values of A. non-trivial = every row.")
    ctx.bounds = {"deltas": [str(d) for d in DELTAS], "kinds": KINDS, "local": LOCAL, "paths": PATHS}
    ctx.assumptions += ["floating and date triggers are interpreted in the local zone given to Alarms.set_local_timezone "
                        "(date = local midnight); without it LocalTimezoneMissing is required where the answer depends on the trigger and NOT permitted where it does not "
                        "(nothing acknowledged, or snoozed until after the acknowledgement: the alarm is active whatever its trigger)",
                        "the second alarm's trigger is one hour (date: one day) earlier with its own ACKNOWLEDGED",
                        "is_active() answers for the alarm's ACKNOWLEDGED at the time of the call (the property is read live), also on an "
                        "AlarmTime computed before the acknowledgement was changed in place"]

    def gen():
        for provider in env.PROVIDERS:
            for path in PATHS:
                for kind in KINDS:
                    for local in LOCAL:
                        for nal in (1, 2):
                            for c_i in range(len(DELTAS)):
                                yield ("r", provider, path, kind, local, "plain", c_i, 0, nal)
                                for s_i in range(len(DELTAS)):
                                    yield ("r", provider, path, kind, local, "tb", c_i, s_i, nal)

    ctx.explore("decision-table rows", gen, run_case)

    def gen_rep():
        for provider in env.PROVIDERS:
            for copies in (1, 2, 3):
                for how in ("equal-subcomponents", "same-object-again"):
                    for repeat in (1, 2, 5):
                        for step in (10, -10):
                            for ackd in (None, -60, -15, -10, -5, 0, 5, 10, 15, 25, 60):
                                yield ("rp", provider, copies, how, repeat, step, ackd)

    ctx.explore("repeating alarms, several of them equal", gen_rep, run_repeating)

    def gen_calls():
        for provider in env.PROVIDERS:
            for tkind in ("utc", "floating"):
                for local in CALL_LOCALS:
                    if tkind == "floating" and local == "unset":
                        continue
                    for order in ("before", "after"):
                        for op in ("ack", "snooze"):
                            for form in CALL_FORMS:
                                for di in range(len(CALL_DELTAS)):
                                    yield ("k", provider, tkind, local, order, op, form, di)
                            for di in ("date0", "date1"):
                                yield ("k", provider, tkind, local, order, op, "date", di)

    ctx.explore("acknowledge_until / snooze_until called directly", gen_calls, run_calls)

    def gen_manual():
        for provider in env.PROVIDERS:
            for tocc in (0,):  # a start in the SECOND occurrence loses its fold in Python's own date arithmetic (C14's "plus")
                for ai in range(len(FOLD_WALLS)):
                    for form in ("same-zone", "utc", "other-zone"):
                        yield ("m", provider, tocc, ai, form)
                        for op in ("snooze-ack-before", "snooze-ack-after"):
                            yield ("m", provider, tocc, ai, form, op)

    ctx.explore("acknowledge_until / snooze_until around a repeated hour", gen_manual, run_manual)
