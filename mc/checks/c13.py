"""C13 - a generated VTIMEZONE reproduces the source zone's offsets over its window.

E-dom: every zone id x both providers x date windows.  For each generated component:
 (1) well-formedness (TZID, >= 1 observance, each with DTSTART, TZOFFSETFROM, TZOFFSETTO, TZNAME, onsets inside the window);
 (2) RFC 5545 onset interpretation (refmodel/rfc_tz.py, fed from the serialised text through the reference reader) gives the
     source zone's offset and abbreviation;
 (3) the component converted back with to_tz(lookup_tzid=False) gives them too;
 (4) generating again from the converted zone yields the same component.
(2) and (3) are evaluated on the partition induced by {source breakpoints (read independently: TZif / provider table)} U
{generated onsets}: each breakpoint -1s / 0 / +1s and one interior point per interval (both functions are piecewise constant
with breakpoints in that union, so agreement on the partition is agreement at every instant), plus a coarse grid.
Known findings are matched by a PREDICTOR: the generator's documented behaviour re-implemented on the ground-truth
breakpoints (onset written in the new offset's wall clock; transitions that change only name/dst are not detected).
"""
import bisect
from datetime import date, datetime, timedelta, timezone

from mc import env
from mc.core import HarnessError
from mc.refmodel import rfc_tz as Z
from mc.refmodel import rfc_values as RV
from mc.refmodel import tree as T

from icalendar.cal import Timezone
from icalendar.timezone import tzp, TZP

UTC = timezone.utc
WINDOWS = [(date(1970, 1, 1), date(2038, 1, 1))]
ENDS = (1970, 1987, 2000, 2010, 2024, 2038)
ALL_WINDOWS = [(date(a, 1, 1), date(b, 1, 1)) for i, a in enumerate(ENDS) for b in ENDS[i + 1:]]
SHORT = [(date(2021, 1, 1), date(2023, 1, 1)), (date(1986, 1, 1), date(1989, 1, 1)), (date(2007, 6, 1), date(2009, 6, 1)),
         (date(1999, 1, 1), date(2001, 1, 1)), (date(2015, 1, 1), date(2017, 1, 1)), (date(1974, 1, 1), date(1976, 1, 1))]


def source_segments(provider, key, lo, hi):
    """Ground truth: [(utc naive start, utoff seconds, abbr, isdst)] covering [lo, hi) (naive UTC datetimes)."""
    segs = []
    if provider == "pytz":
        import pytz
        tz = pytz.timezone(key)
        times = getattr(tz, "_utc_transition_times", None)
        if not times:
            off = tz.utcoffset(datetime(2000, 1, 1))
            return [(lo, int(off.total_seconds()), tz.tzname(datetime(2000, 1, 1)), 0)]
        info = tz._transition_info
        i = max(0, bisect.bisect_right(times, lo) - 1)
        segs.append((lo, int(info[i][0].total_seconds()), info[i][2], 1 if info[i][1] else 0))
        for j in range(i + 1, len(times)):
            if times[j] >= hi:
                break
            if times[j] > lo:
                segs.append((times[j], int(info[j][0].total_seconds()), info[j][2], 1 if info[j][1] else 0))
        return segs
    bp = Z.zone_breakpoints(key, "zoneinfo", last_year=hi.year + 1)
    if bp is None:
        return None
    lo_s, hi_s = Z.to_utc_seconds(lo.replace(tzinfo=UTC)), Z.to_utc_seconds(hi.replace(tzinfo=UTC))
    cur = Z.offset_at(bp, lo_s)
    segs.append((lo, cur[0], cur[2], cur[1]))
    for t, tt in bp[1]:
        if lo_s < t < hi_s:
            segs.append((Z.from_utc_seconds(t).replace(tzinfo=None), tt[0], tt[2], tt[1]))
    return segs


def seg_at(segs, t):
    i = bisect.bisect_right([s[0] for s in segs], t) - 1
    return segs[max(i, 0)]


def read_generated(text):
    """Serialised VTIMEZONE -> (tzid, [Observance]) through the reference reader."""
    root = T.read(text)[0]
    props = {}
    for n, p, v in root[1]:
        props.setdefault(n, []).append(v)
    obs = []
    problems = []
    for sub in root[2]:
        sp = {}
        for n, p, v in sub[1]:
            sp.setdefault(n, []).append((p, v))
        for need in ("DTSTART", "TZOFFSETFROM", "TZOFFSETTO", "TZNAME"):
            if len(sp.get(need, [])) != 1:
                problems.append(f"{sub[0]}: {need} x{len(sp.get(need, []))}")
        if problems:
            continue
        onsets = [RV.dec_datetime(sp["DTSTART"][0][1])[0]]
        for p, v in sp.get("RDATE", []):
            for item in v.split(","):
                onsets.append(RV.dec_datetime(item)[0])
        obs.append(Z.Observance(sub[0], RV.dec_offset(sp["TZOFFSETFROM"][0][1]), RV.dec_offset(sp["TZOFFSETTO"][0][1]),
                                R_unescape(sp["TZNAME"][0][1]), onsets))
        if sub[0] not in ("STANDARD", "DAYLIGHT"):
            problems.append(f"unexpected sub-component {sub[0]}")
    return props.get("TZID", [None])[0], obs, problems


def R_unescape(t):
    from mc.refmodel.rfc_text import spec_unescape
    return spec_unescape(t)


STEPS = [timedelta(days=d) for d in (64, 32, 16, 8, 4, 2, 1)] + [timedelta(hours=4), timedelta(hours=1), timedelta(minutes=20),
                                                                   timedelta(minutes=5), timedelta(minutes=1), timedelta(seconds=20),
                                                                   timedelta(seconds=5), timedelta(seconds=1)]


def predict_observances(provider, segs, first, last, exact=False, start_utc=None, end_utc=None):
    """The generator's documented algorithm re-implemented on the ground-truth segments (no tz library involved):
    starting at the window start it repeatedly looks for the last moment with the current utcoffset by stepping forward with
    decreasing step sizes (64 days ... 1 second) - which (a) writes the onset of the next observance as the wall clock of
    that moment + 1s in the arithmetic of the provider (pytz: absolute, i.e. the NEW offset's wall clock; zoneinfo: wall
    clock arithmetic, i.e. max(old, new) offset), (b) cannot see a transition that keeps the utcoffset, and (c) steps over
    observances shorter than the coarse steps.  exact=True gives the same algorithm with perfect transition detection
    (used to tell which finding explains a mismatch)."""
    starts = [x[0] for x in segs]

    def seg_of_instant(t):
        return segs[max(bisect.bisect_right(starts, t) - 1, 0)]

    def seg_of_wall(w):
        # fold=0 semantics: the earliest instant whose wall clock is w; inside a gap: the offset before the gap
        cands = []
        for i, sg in enumerate(segs):
            t = w - timedelta(seconds=sg[1])
            nxt = segs[i + 1][0] if i + 1 < len(segs) else datetime.max
            if (sg[0] <= t or i == 0) and t < nxt:
                cands.append((t, sg))
        if cands:
            return min(cands, key=lambda c: c[0])[1]
        # gap: take the segment that ends just before
        for i, sg in enumerate(segs[:-1]):
            if w - timedelta(seconds=sg[1]) >= segs[i + 1][0] and w - timedelta(seconds=segs[i + 1][1]) < segs[i + 1][0]:
                return sg
        return segs[-1]

    absolute = provider == "pytz"
    lo = datetime(first.year, first.month, first.day)
    hi = datetime(last.year, last.month, last.day)
    # positions are instants (pytz) or wall clocks (zoneinfo)
    first_cur = None
    if absolute:
        # where the window starts / ends as an instant is the PROVIDER's decision (pytz.localize: in a fold between two
        # non-DST offsets it takes the later occurrence, in a gap it keeps the earlier offset un-normalised): given by
        # the caller; the offset attached to the start is wall - instant
        pos = start_utc if start_utc is not None else lo - timedelta(seconds=seg_of_wall(lo)[1])
        hi_pos = end_utc if end_utc is not None else hi - timedelta(seconds=seg_of_wall(hi)[1])
        if start_utc is not None:
            attached = int((lo - start_utc).total_seconds())
            here = seg_of_instant(start_utc)
            if here[1] == attached:
                first_cur = here
            else:
                i = max(bisect.bisect_right(starts, start_utc) - 1, 0)
                first_cur = next((sg for sg in (segs[max(i - 1, 0)], segs[min(i + 1, len(segs) - 1)]) if sg[1] == attached), seg_of_wall(lo))
        info = seg_of_instant
        wall = lambda p: p + timedelta(seconds=seg_of_instant(p)[1])  # noqa: E731
    else:
        pos, hi_pos = lo, hi
        info = seg_of_wall
        wall = lambda p: p  # noqa: E731
    groups = {}
    prev_off = None
    guard = 0
    while pos < hi_pos and guard < 5000:
        guard += 1
        cur = info(pos)
        if absolute and guard == 1:
            # pytz: the window start is localised without normalising; inside a gap it keeps the offset before the gap
            cur = first_cur if first_cur is not None else seg_of_wall(lo)
        off = cur[1]
        if exact:
            # perfect detection: next ground-truth change of the utcoffset after pos
            t = pos if absolute else pos - timedelta(seconds=off)
            i = bisect.bisect_right(starts, t)
            while i < len(segs) and segs[i][1] == off:
                i += 1
            if i < len(segs):
                nxt = segs[i][0]
                end = (nxt if absolute else nxt + timedelta(seconds=off)) - timedelta(seconds=1)
            else:
                end = hi_pos
        else:
            end = pos
            for step in STEPS:
                last_end = end
                end = end + step
                try:
                    while info(end)[1] == off:
                        last_end = end
                        end = end + step
                        if end.year > 2100:
                            break
                except OverflowError:
                    break
                end = last_end
        key = (prev_off if prev_off is not None else off, off, cur[2], cur[3])
        groups.setdefault(key, []).append(lo if guard == 1 else wall(pos))
        prev_off = off
        pos = end + timedelta(seconds=1)
    out = []
    for (frm, off, name, isdst), ws in groups.items():
        ws = sorted(ws)
        if ws[0].date() == last:
            ws[0] = hi
        out.append(Z.Observance("DAYLIGHT" if isdst else "STANDARD", timedelta(seconds=frm), timedelta(seconds=off), name, ws))
    return out


def fail(cls, case, expected, observed, known=None):
    f = {"cls": cls, "case": case, "expected": expected, "observed": observed, "size": len(repr(case)),
         "unit_test": ("import sys; sys.path[:0] = ['/verif', '/repo/src']\nfrom mc.checks import c13\n"
                       f"r = c13.replay({case!r})\nfor f in r['fails']: print(f['cls'], f.get('known'), f['expected'], f['observed'])\n")}
    if known:
        f["known"] = known
    return f


def eval_points(segs, observances, lo, hi):
    pts = set()
    for s in segs[1:]:
        for d in (-1, 0, 1):
            pts.add(s[0] + timedelta(seconds=d))
    ons = Z.all_onsets_utc(observances)
    for o in ons:
        for d in (-1, 0, 1):
            pts.add(o + timedelta(seconds=d))
    allb = sorted({s[0] for s in segs} | set(ons))
    for a, b in zip(allb, allb[1:]):
        pts.add(a + (b - a) / 2)
    # the window starts at `lo`: the component has to answer from there on (its first onset is never later than that)
    pts.update((lo, lo + timedelta(seconds=1)))
    if ons and ons[0] > lo:
        pts.add(lo + (ons[0] - lo) / 2)
    return sorted(p.replace(microsecond=0) for p in pts if lo <= p < hi)


def run_case(case):
    _, provider, key, w0, w1 = case[:5]
    do_regen = case[5] if len(case) > 5 else True
    glob = case[6] if len(case) > 6 else None
    # normally the library-wide provider is the zone's provider; "cross" cases ask an explicit provider object for the
    # zone while the library-wide provider is the OTHER one (from_tzid's tzp argument, documented)
    env.use_provider(glob or provider)
    zp = tzp if glob is None else TZP(provider)
    first, last = date(*w0), date(*w1)
    fails = []
    lo, hi = datetime(first.year, first.month, first.day), datetime(last.year, last.month, last.day)
    # the bounds are documented as "date or datetime": a datetime bound (naive or aware, any time of day) means its date
    bound = case[7] if len(case) > 7 else None
    fd, ld = first, last
    if bound:
        hh = 12 if bound.endswith("noon") else 0
        tzb = UTC if bound.startswith("aware-utc") else (timezone(timedelta(hours=9)) if bound.startswith("aware-east") else None)
        fd = datetime(first.year, first.month, first.day, hh, 30 if hh else 0, tzinfo=tzb)
        ld = datetime(last.year, last.month, last.day, hh, tzinfo=tzb)
    try:
        gen = Timezone.from_tzid(key, first_date=fd, last_date=ld) if glob is None else \
            Timezone.from_tzid(key, zp, first_date=fd, last_date=ld)
        text = gen.to_ical().decode("utf-8")
    except Exception as e:  # noqa: BLE001
        return {"state": ("gen-raises", key), "trans": 1, "nontrivial": True, "outcome": "generation-raises",
                "fails": [fail("generation-raises", case, "a VTIMEZONE", f"{type(e).__name__}: {e}")]}
    tz_src = zp.timezone(key)
    # wall clock of window start in the zone: the library localises first_date 00:00 in the zone
    try:
        lo_aware = zp.localize(lo, tz_src)
        hi_aware = zp.localize(hi, tz_src)
        lo_utc = lo_aware.astimezone(UTC).replace(tzinfo=None)
        hi_utc = hi_aware.astimezone(UTC).replace(tzinfo=None)
    except Exception as e:  # noqa: BLE001
        raise HarnessError(f"cannot localise window for {key}: {e}")
    # two days of context before the window: its start may fall into a gap or onto a transition
    segs = source_segments(provider, key, lo_utc - timedelta(days=2), hi_utc)
    if segs is None:
        return {"state": ("no-ground-truth", key), "trans": 1, "traces": 0, "outcome": "no-ground-truth", "fails": []}
    tzid, obs, problems = read_generated(text)
    # (1) well-formedness
    if tzid != key:
        problems.append(f"TZID {tzid!r}")
    if not obs:
        problems.append("no observance")
    for ob in obs:
        for o in ob.onsets_local:
            if not (lo <= o <= hi):
                problems.append(f"onset {o} outside the window")
                break
    if problems:
        fails.append(fail("not-well-formed", case, "TZID, observances with DTSTART/TZOFFSETFROM/TZOFFSETTO/TZNAME, onsets in window", problems[:4]))
        return {"state": ("malformed", key), "trans": 1, "nontrivial": True, "outcome": "malformed", "fails": fails}
    pts = eval_points(segs, obs, lo_utc, hi_utc)
    pred = predict_observances(provider, segs, first, last, start_utc=lo_utc, end_utc=hi_utc)
    # (2) RFC interpretation
    bad2 = []
    unpredicted2 = []
    for t in pts:
        src = seg_at(segs, t)
        ob = Z.in_force(obs, t)
        got = None if ob is None else (int(ob.offset_to.total_seconds()), ob.tzname)
        if got != (src[1], src[2]):
            bad2.append((t, (src[1], src[2]), got))
            pb = Z.in_force(pred, t)
            pgot = None if pb is None else (int(pb.offset_to.total_seconds()), pb.tzname)
            if pgot != got:
                unpredicted2.append((t, (src[1], src[2]), got, pgot))
    outcome = "rfc-ok"
    kid2 = None
    if bad2:
        name_only = all(b[2] and b[1][0] == b[2][0] for b in bad2)
        kid = "C13-name-only-transitions" if name_only else "C13-onset-in-new-offset"
        if not unpredicted2:
            # does perfect transition detection (same onset basis) explain it too?  if not, a short observance was stepped over
            pex = predict_observances(provider, segs, first, last, exact=True, start_utc=lo_utc, end_utc=hi_utc)
            for t, want, got in bad2:
                pb = Z.in_force(pex, t)
                if (None if pb is None else (int(pb.offset_to.total_seconds()), pb.tzname)) != got:
                    kid = "C13-short-observance-skipped"
                    break
        kid2 = kid
        t, want, got = bad2[0]
        fails.append(fail("rfc-interpretation-differs-from-source", case, (str(t), want), got,
                          known=None if unpredicted2 else kid))
        outcome = "rfc-unpredicted" if unpredicted2 else "rfc-known"
    # (3) converted zone
    try:
        conv = gen.to_tz(zp, lookup_tzid=False)
    except Exception as e:  # noqa: BLE001
        fails.append(fail("to_tz-raises", case, "a tzinfo", f"{type(e).__name__}: {e}"))
        conv = None
    conv_known = False
    if conv is not None:
        bad3 = []
        for t in pts:
            src = seg_at(segs, t)
            try:
                dt = t.replace(tzinfo=UTC).astimezone(conv)
                got = (int(dt.utcoffset().total_seconds()), dt.tzname())
            except Exception as e:  # noqa: BLE001
                got = (f"raised {type(e).__name__}", str(e)[:60])
            if got != (src[1], src[2]):
                bad3.append((t, (src[1], src[2]), got))
        if bad3:
            edges = sorted({x[0] for x in segs[1:]} | set(Z.all_onsets_utc(obs)))
            maxd = timedelta(seconds=max([abs(a[1] - b[1]) for a, b in zip(segs, segs[1:])] or [0]))

            def near(t):
                i = bisect.bisect_left(edges, t)
                return any(abs(t - edges[j]) <= maxd for j in (i - 1, i) if 0 <= j < len(edges))

            def rfc_wrong_too(t, src):
                ob = Z.in_force(obs, t)
                return ob is None or (int(ob.offset_to.total_seconds()), ob.tzname) != src
            raised = [b for b in bad3 if isinstance(b[2][0], str)]
            if raised:
                explained = maxd >= timedelta(hours=24) and all("strictly between" in b[2][1] for b in raised)
                kid = "C13-24h-delta"
            elif provider == "pytz":
                # a pytz zone built from the component IS the RFC reading of it: it must equal the predicted reading exactly
                explained = not unpredicted2 and all(
                    (lambda ob: ob is not None and (int(ob.offset_to.total_seconds()), ob.tzname) == b[2])(Z.in_force(pred, b[0])) for b in bad3)
                kid = kid2 or "C13-onset-in-new-offset"
            else:
                # dateutil-built zone: tolerated only where the component itself (RFC reading) is already wrong, or within one
                # offset-delta of a source transition / generated onset (dateutil's two-step fromutc)
                explained = not unpredicted2 and all(near(b[0]) or rfc_wrong_too(b[0], b[1]) for b in bad3)
                kid = kid2 or "C13-onset-in-new-offset"
            t, want, got = bad3[0]
            fails.append(fail("converted-zone-differs-from-source", case, (str(t), want), got, known=kid if explained else None))
            outcome += "+conv-known" if explained else "+conv-unexplained"
            conv_known = explained
        else:
            outcome += "+conv-ok"
        # (4) regeneration: required to be identical when the converted zone equals the source; where a known finding already
        # makes the converted zone differ, the regenerated component must still be well-formed with the same observance kinds
        try:
            again = Timezone.from_tzinfo(conv, key, first, last).to_ical().decode("utf-8") if do_regen else text
            if again != text:
                consequence = (kid2 is not None or conv_known)
                _tz2, obs2, prob2 = read_generated(again)
                # same observance kinds: every (kind, offset, name) of one generation occurs in the other - except that the
                # observance in force at the window start may turn STANDARD (finding C13-first-observance-kind)
                first_key = None
                if seg_at(segs, lo_utc)[3]:
                    f0 = [o for o in obs if o.offset_from == o.offset_to and lo in o.onsets_local]
                    first_key = (f0[0].offset_to, f0[0].tzname) if f0 else None
                kinds = lambda oo: {(("?" if (o.offset_to, o.tzname) == first_key else o.kind), o.offset_to, o.tzname) for o in oo}  # noqa: E731
                weak_ok = not prob2 and kinds(obs2) == kinds(obs)
                known = (kid2 or "C13-onset-in-new-offset") if (consequence and weak_ok) else None
                if known is None and not prob2:
                    # the window starts inside a DAYLIGHT observance: its TZOFFSETFROM is unknown and written as TZOFFSETTO, so
                    # the converted zone reports dst()=0 there and the regenerated first observance is STANDARD
                    def sig(o, blind):
                        k = "?" if blind and o.offset_from == o.offset_to and lo in o.onsets_local else o.kind
                        return (k, o.offset_from, o.offset_to, o.tzname, tuple(o.onsets_local))
                    first_dst = seg_at(segs, lo_utc)[3]
                    if first_dst and sorted(sig(o, True) for o in obs) == sorted(sig(o, True) for o in obs2) \
                            and sorted(sig(o, False) for o in obs) != sorted(sig(o, False) for o in obs2):
                        known = "C13-first-observance-kind"
                fails.append(fail("regeneration-differs", case, text[:300], again[:300], known=known))
                outcome += "+regen-differs"
            else:
                outcome += "+regen-same"
        except Exception as e:  # noqa: BLE001
            big = max([abs(a[1] - b[1]) for a, b in zip(segs, segs[1:])] or [0]) >= 86400
            fails.append(fail("regeneration-raises", case, "a VTIMEZONE", f"{type(e).__name__}: {e}",
                              known="C13-24h-delta" if (big and "strictly between" in str(e)) else None))
    return {"state": (provider, key, w0, w1, text), "trans": 4, "nontrivial": len(segs) > 1, "outcome": outcome, "fails": fails,
            "extra": {"points": len(pts)}}


SWITCH_ZONES = ("Africa/Monrovia", "Asia/Manila", "Europe/Berlin", "America/New_York", "Australia/Lord_Howe", "Asia/Kolkata",
                "Africa/Casablanca", "Europe/Dublin", "America/Sao_Paulo", "Pacific/Apia")
SWITCH_WINDOWS = (((1970, 1, 1), (1980, 1, 1)), ((2000, 1, 1), (2030, 1, 1)))


def run_switch(case):
    """('sw', zone, w0, w1, (p1, p2)): generate under p1, switch the provider, generate the same zone and window under p2,
    switch back and generate again - each result judged against the source zone of the provider active at that moment."""
    _, key, w0, w1, order = case
    fails = []
    trans = 0
    states = []
    for step, provider in enumerate((order[0], order[1], order[0])):
        r = run_case(("z", provider, key, w0, w1, False))
        trans += r.get("trans", 1)
        states.append(repr(r.get("state"))[:80])
        for f in r["fails"]:
            f = dict(f)
            f["cls"] = f"step{step + 1}:{f['cls']}"
            f["case"] = case
            fails.append(f)
    return {"state": ("sw", key, w0, w1, order, tuple(states)), "trans": trans, "nontrivial": True, "fails": fails,
            "outcome": "switch-ok" if not any(not f.get("known") for f in fails) else "FAIL"}


def run_edge(case):
    """('edge', provider, zone, era year, which): a window that STARTS (or ENDS) on the local date of one of the zone's own
    transitions - the window bounds are dates, the transition usually is not at midnight."""
    _, provider, key, era, which = case
    segs = source_segments(provider, key, datetime(era, 1, 1), datetime(era + 3, 1, 1))
    if not segs or len(segs) < 2:
        return {"state": ("edge-no-transition", key), "trans": 0, "traces": 0, "nontrivial": False, "outcome": "edge:no-transition", "fails": []}
    t_utc, prev_off = segs[1][0], segs[0][1]
    d = (t_utc + timedelta(seconds=prev_off)).date()
    if which == "start":
        w0, w1 = d, d + timedelta(days=300)
    else:
        w0, w1 = d - timedelta(days=300), d
    r = run_case(("z", provider, key, (w0.year, w0.month, w0.day), (w1.year, w1.month, w1.day), False))
    fails = []
    for f in r["fails"]:
        f = dict(f)
        f["cls"] = f"edge-{which}:{f['cls']}"
        f["case"] = case
        fails.append(f)
    return {"state": ("edge", provider, key, era, which, repr(r.get("state"))[:80]), "trans": r.get("trans", 1), "nontrivial": True,
            "fails": fails, "outcome": "edge:" + str(r.get("outcome"))}


def replay(case):
    if case[0] == "edge":
        return run_edge(case)
    return run_switch(case) if case[0] == "sw" else run_case(case)


def run(ctx):
    import zoneinfo
    import pytz
    zi = sorted(k for k in zoneinfo.available_timezones() if k != "localtime")
    pz = sorted(pytz.all_timezones)
    windows = list(WINDOWS) + ([SHORT[ctx.seed % len(SHORT)]] if ctx.quick else ALL_WINDOWS[1:] + SHORT)
    ctx.rule = ("E-dom: every zone id (%d zoneinfo, %d pytz; quick tier: all zoneinfo zones, a seed-rotated third of the pytz zones on the default window; regeneration (4) for every zone on the default window) x both providers x windows %s: well-formedness, RFC onset "
                "interpretation and the converted zone vs the source at every point of the partition induced by source breakpoints "
                "and generated onsets (+-1s and interior points), regeneration. non-trivial = zone with at least one transition in the "
                "window. Windows whose first / last date is the local date of the zone's own first transition of 2019 (thorough: 1975, 1995, 2019; quick: a seed-rotated half of the zoneinfo zones). Two-year windows starting on 1 July / 15 January (inside northern / southern daylight time) for every zone (quick: all zoneinfo zones, a seed-rotated eighth of the pytz zones). Window bounds given as naive / aware datetimes with and without a time of day for 9 zones x 2 windows. E-hist: for 10 zones (incl. those on which the providers' databases disagree) generate / switch provider / generate / switch back / generate, every result judged against the then-active provider's zone." % (len(zi), len(pz), [f"{a}..{b}" for a, b in windows][:4]))
    ctx.bounds = {"windows": [f"{a}..{b}" for a, b in windows], "zoneinfo_zones": len(zi), "pytz_zones": len(pz)}
    ctx.assumptions += ["the window is [first_date 00:00, last_date 00:00) in the zone's own local time as the provider localises it; instants before it are excluded",
                        "ground truth: TZif reader (zoneinfo) / the provider's transition table (pytz); the provider object itself is used only to place the window"]
    ctx.limit = 600.0

    def gen():
        for wi, (a, b) in enumerate(windows):
            for provider in env.PROVIDERS:
                for ki, key in enumerate(zi if provider == "zoneinfo" else pz):
                    if ctx.quick and provider == "pytz" and (wi > 0 or ki % 3 != ctx.seed % 3):
                        continue  # quick tier: pytz generation costs ~1 s per zone; a seed-rotated third, default window
                    yield ("z", provider, key, (a.year, a.month, a.day), (b.year, b.month, b.day),
                           (not ctx.quick) or provider == "pytz" or wi == 0)

    ctx.explore("zones x windows", gen, run_case, recheck=False)

    def gen_mid():
        # two-year windows that START inside the daylight-saving period of the northern (July) / southern (mid January)
        # hemisphere, so that the observance in effect at the start comes round again inside the window
        for provider in env.PROVIDERS:
            for ki, key in enumerate(zi if provider == "zoneinfo" else pz):
                if ctx.quick and provider == "pytz" and ki % 8 != ctx.seed % 8:
                    continue
                for w0, w1 in (((2021, 7, 1), (2023, 7, 1)), ((2021, 1, 15), (2023, 1, 15)), ((1996, 7, 10), (1998, 8, 20))):
                    yield ("z", provider, key, w0, w1, False)

    ctx.explore("windows-starting-in-daylight-time", gen_mid, run_case, recheck=False)

    def gen_bounds():
        zones = ("America/New_York", "US/Eastern", "Europe/Berlin", "Asia/Tokyo", "Etc/GMT+5", "Australia/Lord_Howe", "Pacific/Apia", "Africa/Casablanca", "UTC")
        for provider in env.PROVIDERS:
            for key in zones:
                for w0, w1 in (((2021, 7, 1), (2023, 7, 1)), ((2021, 1, 15), (2022, 1, 15))):
                    for bound in ("naive-midnight", "naive-noon", "aware-utc-midnight", "aware-utc-noon", "aware-east-noon"):
                        yield ("z", provider, key, w0, w1, False, None, bound)

    ctx.explore("window-bounds-given-as-datetimes", gen_bounds, run_case, recheck=False)

    def gen_switch():
        for key in SWITCH_ZONES:
            for w0, w1 in (SWITCH_WINDOWS[:1] if ctx.quick else SWITCH_WINDOWS):
                for order in (("zoneinfo", "pytz"), ("pytz", "zoneinfo")):
                    yield ("sw", key, w0, w1, order)

    ctx.explore("provider-switch histories", gen_switch, run_switch, recheck=False)

    def gen_cross():
        for key in SWITCH_ZONES:
            for w0, w1 in ((2020, 1, 1), (2021, 1, 1)), ((1970, 1, 1), (1980, 1, 1)):
                for provider, glob in (("pytz", "zoneinfo"), ("zoneinfo", "pytz")):
                    yield ("z", provider, key, w0, w1, False, glob)

    ctx.explore("zone-of-one-provider-under-the-other", gen_cross, run_case, recheck=False)

    def gen_edge():
        eras = (2019,) if ctx.quick else (1975, 1995, 2019)
        for era in eras:
            for provider in env.PROVIDERS:
                for ki, key in enumerate(zi if provider == "zoneinfo" else pz):
                    if ctx.quick and (provider == "pytz" or ki % 2 != ctx.seed % 2):
                        continue  # quick: a seed-rotated half of the zoneinfo zones
                    for which in ("start", "end"):
                        yield ("edge", provider, key, era, which)

    ctx.explore("windows-on-transition-dates", gen_edge, run_edge, recheck=False)
