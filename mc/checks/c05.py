"""C05 - content-line join/split are inverse; values cannot inject structure.

E-enum (pairwise-cut product): names x parameter maps (0/1/2 parameters, values = every string over a 12-symbol
delimiter alphabet up to length k) x values (the same strings as vText/vUri/vCalAddress/vInline + a typed menu).
Level 1: Contentline.from_parts(n, P, v).parts() gives n, P (quote -> apostrophe is documented) and a value text
         that decodes to the same value.  A refusal is accepted only for content the format cannot carry
         (LF/CR/control characters in a parameter value, LF in a non-TEXT value).
Level 2: the property sits in VCALENDAR/VEVENT next to sentinels; after to_ical + from_ical exactly one of the
         statement's outcomes holds: serialisation refused / the property alone rejected (VEVENT: absent + one error
         entry; strict VTODO: ValueError) / the tree has exactly the intended components, property names and
         parameter names.
Known finding `C05-placeholders` (see C07): tolerated only when the observation equals the defect model's prediction.
"""
import itertools

from mc import env  # noqa: F401
from mc.refmodel import rfc_text as R
from mc.refmodel import rfc_props as RP
from mc.snapshot import structure

from icalendar.parser import Parameters, Contentline
from icalendar.cal import Event, Calendar, Todo, Alarm
from icalendar.prop import vText, vUri, vCalAddress, vInline, vInt, vDDDTypes, vRecur, vGeo, vCategory, vBoolean, vFloat
from datetime import datetime, date, timedelta

SIGMA = ("\\", ";", ":", ",", '"', "%", "2", "C", "\r", "\n", "a", " ")
NAMES = ("X-A", "SUMMARY", "ATTENDEE", "A.B", "x-lower", "123", "DTSTART", "BEGINX")
WRAPS = {"vText": vText, "vUri": vUri, "vCalAddress": vCalAddress, "vInline": vInline}
V20 = ("v", "", "a:b", "a;b", "a,b", "\\", "a\\", "\\,", "%2C", '"', "BEGIN:VEVENT", "END:VEVENT", "\r\nBEGIN:VEVENT",
       "a\rb", "x\\;y", "x\\:y", "\\\\", "X=1", "mailto:a@b", " ", "\u00a0v\u00a0", "\tv\t", "\ufeffv", "a^nb^^c^'d", "\U0001F600", "a%2cb%3a%3b%5c", "50%25off %20 %41", "x%0Ay%0d")
P20 = ("p", "", "a:b", "a;b", "a,b", "\\", "a\\", "\\,", "%3A", '"', 'a"b', "a b", "a\rb", "a\nb", "\\;", "\\:", "\\\\",
       "X=1:y", ";X=1", "BEGIN:VEVENT", "\u00a0", "p\u2003", "\ufeffp",
       # RFC 6868 look-alikes (written raw, must come back raw), a non-BMP character, a value ending with a backslash that needs quoting
       "a ^^ b", "x^n: y", "it^'s a", "^", "\U0001F600", "\U0001F600 x", "c:\\dir\\", "a%2cb%3a%3b%5c", "50%25off%20%41", "x%0Ay")
STRING_NAMES = tuple(sorted(n for n, (t, _a, _l, _x) in RP.PROPS.items() if t in ("TEXT", "URI", "CAL-ADDRESS") and n not in ("CATEGORIES", "UID")))  # UID: the sentinel
TYPED = (("vInt", 5), ("vInt", -2147483648), ("vDDD", "dt"), ("vDDD", "date"), ("vDDD", "td"), ("vRecur", None),
         ("vGeo", None), ("vCategory", ("a,b", "c;d", "e\\")), ("vBoolean", True), ("vFloat", 1.5))


class WireValue:
    """A parameter value of an application's own class: not a str, it serialises itself (the documented protocol of value
    objects).  Its wire text is quoted like any other parameter value."""

    def __init__(self, text):
        self.text = text

    def to_ical(self):
        return self.text.encode("utf-8")


def strings(k, kmin=0):
    for n in range(kmin, k + 1):
        for t in itertools.product(SIGMA, repeat=n):
            yield "".join(t)


def make_value(wrap, s):
    if wrap in WRAPS:
        return WRAPS[wrap](s)
    if wrap == "vInt":
        return vInt(s)
    if wrap == "vDDD":
        return vDDDTypes({"dt": datetime(2024, 3, 31, 2, 30), "date": date(2024, 2, 29), "td": timedelta(hours=-1, minutes=-5)}[s])
    if wrap == "vRecur":
        return vRecur(freq="WEEKLY", byday=["MO", "-1SU"], count=3)
    if wrap == "vGeo":
        return vGeo((1.5, -2.25))
    if wrap == "vCategory":
        return vCategory(list(s))
    if wrap == "vBoolean":
        return vBoolean(s)
    if wrap == "vFloat":
        return vFloat(s)
    raise AssertionError(wrap)


def carriable_param(v):
    return not R.CTL.search(v) and "\r" not in v


def norm_param(v):
    if isinstance(v, (list, tuple)):
        v = [str(x) for x in v]
        return v[0] if len(v) == 1 else v
    return str(v)


def value_ok(wrap, s, text):
    """Does the value text decode to the value that was joined?"""
    if wrap == "vText":
        return str(vText.from_ical(text)) in R.expected_decodes(s)
    if wrap in ("vUri", "vCalAddress", "vInline"):
        return text == s
    if wrap == "vCategory":
        return None  # list splitting is C07's business; only the line structure is judged here
    v = make_value(wrap, s)
    t = v.to_ical()
    t = t.decode("utf-8") if isinstance(t, bytes) else t
    return text == t


def fail(cls, case, expected, observed, known=None):
    f = {"cls": cls, "case": case, "expected": expected, "observed": observed, "size": len(repr(case))}
    if known:
        f["known"] = known
    f["unit_test"] = ("import sys; sys.path[:0] = ['/verif', '/repo/src']\nfrom mc.checks import c05\n"
                      f"r = c05.replay({case!r})\nfor f in r['fails']: print(f['cls'], f.get('known'), f['expected'], f['observed'])\n")
    return f


def run_case(case):
    _, name, pshape, ps, wrap, s = case
    # parameters
    if pshape == 0:
        given = []
    elif pshape == 1:
        given = [("X-P", ps)]
    elif pshape == 2:
        given = [("X-P", ps), ("X-Q", "b")]
    elif pshape == 3:
        given = [("X-O", "b"), ("X-P", ps)]
    # list-valued parameters (the RFC's own multi-valued ones and an X- one): the items are joined with commas that are
    # delimiters, each item quoted on its own
    elif pshape == 4:
        given = [("MEMBER", [ps, "b"])]
    elif pshape == 5:
        given = [("DELEGATED-TO", ["b", ps])]
    elif pshape == 6:
        given = [("X-L", ["b", ps, "c"]), ("SENT-BY", "b")]
    # empty items at the ends of a list (an empty field after the last / before the first comma)
    elif pshape == 9:
        given = [("X-P", ps)]  # handed over inside an object that is no str but serialises itself (see below)
    elif pshape == 7:
        given = [("X-L", [ps, ""])]
    else:
        given = [("MEMBER", ["", ps, ""]), ("X-Q", "a b")]
    fails = []
    outcomes = []
    P = Parameters()
    for k, v in given:
        # every other case hands the value over as a vText object (docs/usage does): same wire form as the plain string
        P[k] = WireValue(v) if pshape == 9 else (v if isinstance(v, list) else (vText(v) if (len(ps) + len(str(s))) % 2 else v))
    intended_params = {k: norm_param([x.replace('"', "'") for x in v]) if isinstance(v, list) else v.replace('"', "'") for k, v in given}
    value = make_value(wrap, s)
    val_text = value.to_ical()
    val_text = val_text.decode("utf-8") if isinstance(val_text, bytes) else val_text
    items_of = lambda v: v if isinstance(v, list) else [v]  # noqa: E731
    unrepresentable = any(not carriable_param(x) or "\n" in x for _k, v in given for x in items_of(v)) or "\n" in val_text
    # ---------------- level 1
    line = None
    try:
        line = Contentline.from_parts(name, P, value)
    except Exception as e:  # noqa: BLE001
        if not unrepresentable:
            fails.append(fail("join:refused-representable-content", case, "a content line", f"{type(e).__name__}: {e}"))
        outcomes.append("join-refused")
    if line is not None:
        text = str(line)
        if "\n" in text:
            fails.append(fail("join:raw-LF-in-line", case, "no LF", text))
        try:
            n, pp, v = Contentline(text).parts()
            obs = (n, {k: norm_param(x) for k, x in pp.items()}, v)
            # splitting is a function of the text: in-place edits of an earlier result must not reach a later split
            for k in list(pp.keys()):
                if isinstance(pp[k], list):
                    pp[k].append("edited")
                else:
                    del pp[k]
            pp["X-EDITED"] = "1"
            n2, pp2, v2 = Contentline("".join(list(text))).parts()
            obs2 = (n2, {k: norm_param(x) for k, x in pp2.items()}, v2)
            if obs2 != obs:
                fails.append(fail("split:second-split-sees-edits-of-the-first-result", case, obs, obs2))
        except ValueError:
            obs = ("rejected",)
        # the same through the line's own serialised (folded) form: fold + unfold must not change what is split
        try:
            again = Contentline.from_ical(line.to_ical().decode("utf-8"))
            if str(again) != text:
                fails.append(fail("join:fold-unfold-changes-the-line", case, text, str(again)))
        except Exception as e:  # noqa: BLE001
            fails.append(fail("join:fold-unfold-raises", case, text, f"{type(e).__name__}: {e}"))
        if obs == ("rejected",):
            if unrepresentable:
                outcomes.append("split-rejected-unrepresentable")
            else:
                fails.append(judge1(text, obs, (name, intended_params, val_text), case))
                outcomes.append("split-rejected")
        else:
            good = obs[0] == name and obs[1] == intended_params
            vo = value_ok(wrap, s, obs[2]) if good else False
            if good and (vo is None or vo):
                outcomes.append("split-ok")
            else:
                fails.append(judge1(text, obs, (name, intended_params, val_text), case))
                outcomes.append("split-known" if fails[-1].get("known") else "split-FAIL")
    # ---------------- level 2
    for cname, ccls in (("VEVENT", Event), ("VTODO", Todo)):
        if cname == "VTODO" and pshape > 1:
            continue
        comp = ccls()
        comp.add("uid", "sentinel-1")
        comp.add("x-sent", "sentinel-2", parameters={"x-s": "1"})
        comp[name] = value
        value.params = P
        al = Alarm()
        al.add("action", "DISPLAY")
        comp.add_component(al)
        cal = Calendar()
        cal.add("version", "2.0")
        cal.add_component(comp)
        intended = ("VCALENDAR", (("VERSION", ((),)),), (
            (cname, tuple(sorted([("UID", ((),)), ("X-SENT", (("X-S",),)),
                                  (name.upper(), (tuple(sorted(k for k, _ in given)),))])),
             (("VALARM", (("ACTION", ((),)),), ()),)),))
        without = ("VCALENDAR", (("VERSION", ((),)),), (
            (cname, (("UID", ((),)), ("X-SENT", (("X-S",),))), (("VALARM", (("ACTION", ((),)),), ()),)),))
        try:
            data = cal.to_ical()
        except Exception:  # noqa: BLE001
            outcomes.append(f"{cname}:serialise-refused")
            if not unrepresentable:
                fails.append(fail(f"tree:{cname}:serialise-refused-representable-content", case, "bytes", "raised"))
            continue
        try:
            back = Calendar.from_ical(data)
        except ValueError:
            if cname == "VTODO":
                outcomes.append("VTODO:parse-ValueError")
                # strict container: the line must be one the reader rejects (or an unparsable typed value)
                continue
            fails.append(fail("tree:VEVENT:whole-parse-failed", case, "VEVENT isolates the line", "ValueError"))
            continue
        except Exception as e:  # noqa: BLE001
            fails.append(fail(f"tree:{cname}:parse-crashed", case, "result or ValueError", type(e).__name__))
            continue
        st = structure(back)
        if st == intended:
            outcomes.append(f"{cname}:exact")
            # the same line read back as part of a whole calendar (unfolding of the complete text, not of one line): value and
            # parameter values as intended - judged only where the placeholder finding cannot interfere
            if line is not None and not R.ph_triggered(str(line)) and not unrepresentable:
                try:
                    got_v = back.subcomponents[0][name]
                    got_v = got_v[0] if isinstance(got_v, list) else got_v
                    got_p = {k: norm_param(x) for k, x in got_v.params.items()}
                    gtext = str(got_v)
                    if wrap not in WRAPS:
                        ok_v = True
                    elif type(got_v).__name__ == "vText":      # read as TEXT: the decoded value (what was written was TEXT-escaped iff wrap is vText)
                        ok_v = gtext in (R.expected_decodes(s) if wrap == "vText" else {R.spec_unescape(s)} | R.expected_decodes(R.spec_unescape(s)))
                    else:                                        # read raw (URI, CAL-ADDRESS, ...): the wire text itself
                        ok_v = gtext == val_text
                    if got_p != intended_params or ok_v is False:
                        fails.append(fail(f"tree:{cname}:value-or-parameter-values-differ", case, (intended_params, val_text), (got_p, gtext)))
                except Exception as e:  # noqa: BLE001
                    fails.append(fail(f"tree:{cname}:value-not-readable", case, "the property", f"{type(e).__name__}: {e}"))
        elif st == without and cname == "VEVENT" and len(back.subcomponents[0].errors) == 1:
            outcomes.append("VEVENT:rejected-alone")
        else:
            pred = predict_tree(str(line) if line is not None else None, cname, without, name)
            if line is not None and R.ph_triggered(str(line)) and pred == st:
                fails.append(fail(f"tree:{cname}:structure-differs", case, intended, st, known="C05-placeholders"))
                outcomes.append(f"{cname}:known")
            else:
                fails.append(fail(f"tree:{cname}:structure-differs", case, intended, st))
                outcomes.append(f"{cname}:FAIL")
    nt = any(c in (ps or "") + (s if isinstance(s, str) else "") for c in '\\;:,"%\r\n')
    return {"state": (str(line), tuple(outcomes)), "trans": 4, "nontrivial": nt, "fails": fails,
            "outcome": "|".join(outcomes)}


def judge1(text, obs, want, case):
    try:
        n, d, v = R.predict_parts(text)
        pred = (n, {k: norm_param(x) for k, x in d.items()}, v)
    except R.LineError:
        pred = ("rejected",)
    if R.ph_triggered(text) and pred == obs:
        return fail("split:differs", case, want, obs, known="C05-placeholders")
    return fail("split:differs", case, want, obs)


def predict_tree(text, cname, without, name):
    """Structure the defective reader produces for the one hostile line (all other lines are trigger-free)."""
    if text is None:
        return None
    try:
        n, d, _v = R.predict_parts(text)
    except R.LineError:
        return None
    vc, vprops, vch = without
    (ec, eprops, ech), = vch
    eprops = tuple(sorted(list(eprops) + [(n.upper(), (tuple(sorted(d)),))]))
    return (vc, vprops, ((ec, eprops, ech),))


def run_twice(case):
    """('tw', container, name, first value, second value, how): one property name on two lines, each with its own parameter;
    an empty (or zero) value is a value: two properties come back, each with its parameter and value."""
    _, cname, name, v1, v2, how = case
    fails = []
    if how == "text":
        text = "\r\n".join([f"BEGIN:{cname}", "UID:sentinel", f"{name};X-FIRST=1:{v1}", "X-BETWEEN:b", f"{name};X-SECOND=2:{v2}", f"END:{cname}", ""])
        back = Calendar.from_ical("BEGIN:VCALENDAR\r\n" + text + "END:VCALENDAR\r\n")
    else:
        comp = {"VEVENT": Event, "VTODO": Todo}[cname]()
        comp.add("uid", "sentinel")
        comp.add(name, v1, parameters={"X-FIRST": "1"})
        comp.add("x-between", "b")
        comp.add(name, v2, parameters={"X-SECOND": "2"})
        cal = Calendar()
        cal.add_component(comp)
        back = Calendar.from_ical(cal.to_ical())
    c2 = back.subcomponents[0]
    got = c2.get(name)
    got = got if isinstance(got, list) else ([] if got is None else [got])
    obs = [(sorted(g.params.keys()), str(g)) for g in got]
    want = [(["X-FIRST"], v1), (["X-SECOND"], v2)]
    if obs != want or sorted(c2.keys()) != sorted({"UID", name.upper(), "X-BETWEEN"}) or c2.errors:
        fails.append(fail("twice:occurrences-differ", case, want, (obs, sorted(c2.keys()), c2.errors)))
    return {"state": ("tw",) + tuple(case[1:]) + (repr(obs),), "trans": 3, "nontrivial": True, "outcome": "twice-ok" if not fails else "FAIL", "fails": fails}


def replay(case):
    return run_twice(case) if case[0] == "tw" else run_case(case)


def run(ctx):
    k = 3 if ctx.quick else 4
    ctx.rule = (f"E-enum, pairwise cut: (A) every parameter value over the 12-symbol alphabet, |s|<={k}, x 20 values x names "
                f"(rotating) x parameter shapes (1, 2 with s first, 2 with s second); (B) 20 parameter values x every value "
                f"string, |s|<={k}, as vText/vUri/vCalAddress/vInline; (C) all pairs with |s|,|t|<=2 x 4 wrappers; (D) typed "
                "menu x 20 parameter values; (E) every TEXT/URI/CAL-ADDRESS property name of RFC 5545 x 11 values with delimiters x 4 parameter maps; (F) every string as one item of a list-valued MEMBER / DELEGATED-TO / X- parameter (first, last, middle).  Each case: level 1 (from_parts/parts) and level 2 (VEVENT and strict VTODO "
                "round trip next to sentinels).  non-trivial = a delimiter/escape character occurs.")
    ctx.bounds = {"alphabet": [repr(c) for c in SIGMA], "k": k, "names": list(NAMES)}
    ctx.assumptions += ["a serialisation refusal is accepted only for content the format cannot carry (LF/CR/control "
                        "characters in a parameter value, LF in a non-TEXT value)",
                        "in a strict container (VTODO) a ValueError from the parse counts as 'rejected when read back'"]
    allk = list(strings(k))
    all2 = list(strings(2))

    def gen():
        i = 0
        for ps in allk:
            for v in V20:
                for pshape in (1, 2, 3):
                    i += 1
                    yield ("c", NAMES[i % len(NAMES)], pshape, ps, "vText" if i % 3 else "vUri", v)
        for ps in P20:
            for s in allk:
                for w in WRAPS:
                    i += 1
                    yield ("c", NAMES[i % 4], 1, ps, w, s)
        for ps in all2:
            for s in all2:
                for w in WRAPS:
                    yield ("c", "X-A", 1, ps, w, s)
        for ps in P20:
            for w, s in TYPED:
                for name in ("X-A", "ATTENDEE"):
                    yield ("c", name, 1, ps, w, s)
        for s in allk:
            for w in WRAPS:
                yield ("c", "X-A", 0, "", w, s)

    def gen_lists():
        for ps in allk:
            for pshape in (4, 5, 6, 7, 8, 9):
                for name, v in (("X-A", "v"), ("ATTENDEE", "a,b;c")):
                    yield ("c", name, pshape, ps, "vText", v)

    def gen_blank():
        # (G) long runs of blanks in a value / a parameter value: once folded, a physical line may hold white space only
        for pad in list(range(0, 12)) + list(range(55, 80)):
            for n in (1, 2, 63, 73, 74, 75, 147, 160):
                for blanks in (" " * n, "\t" * n):
                    for txt in ("x" * pad + blanks, "x" * pad + blanks + "end", blanks + "x" * pad):
                        yield ("c", "X-A", 0, "", "vText", txt)
                        yield ("c", "SUMMARY", 1, "p", "vUri", txt)
                        if "\t" not in blanks:
                            yield ("c", "X-A", 1, txt, "vText", "v")

    def gen_names():
        # (E) every property name whose value is free text / a URI / an address: no name may have its own idea of delimiters
        for name in STRING_NAMES:
            for v in ("v", "", "a,b", "a;b", "a:b", "x\\;y", "a, b,c", "BEGIN:VEVENT", "X=1", ",", "a\\"):
                for pshape, ps in ((0, ""), (1, "p"), (1, "a,b;c"), (2, "a:b")):
                    yield ("c", name, pshape, ps, "vText", v)

    def gen_twice():
        for cname in ("VEVENT", "VTODO"):
            for name in ("COMMENT", "X-A", "ATTENDEE", "RESOURCES", "CONTACT", "URL"):
                for v1 in ("", "0", "first", "mailto:a@x"):
                    for v2 in ("", "second", "0"):
                        for how in ("text", "api"):
                            yield ("tw", cname, name, v1, v2, how)

    ctx.explore("join/split + tree", gen, run_case)
    ctx.explore("one name on two lines, falsy values", gen_twice, run_twice)
    ctx.explore("every string-valued property name", gen_names, run_case)
    ctx.explore("list-valued parameters", gen_lists, run_case)
    ctx.explore("long runs of blanks", gen_blank, run_case)
