"""C10 - serialisation is deterministic, pure and insertion-order independent.

E-hist over insertion histories:
 (A) every permutation of the insertion order of every subset (<=5/6 of 7) of distinct properties (canonical-order
     names, X- names, mixed letter case) on Event / Calendar / Timezone / Todo / Journal (names that tie under numeric-aware or separator-insensitive keys) / unknown component: all histories reaching the
     same set give identical bytes (state reached one way vs. another); with sorted=False the lines appear exactly in
     insertion order;
 (B) the same for every permutation of <=4 parameters on a property;
 (C) every interleaving of 3 values of one name with 2 other names, and of 3 subcomponents with 2 properties: repeated
     values / subcomponents keep their relative insertion order (sorted on and off);
 (D) purity: for a menu of trees holding every value class, observable state (classes, parameters, python values)
     before == after to_ical(), and a second to_ical() gives the same bytes; sorted on and off;
 (E) every output is a balanced, properly nested BEGIN/END sequence;
 (F) the same script builds ~250 trees in sub-processes with PYTHONHASHSEED = 0..7 (thorough 0..63): identical digests;
 (G) ~85 trees (the purity menu plus look-alike values: month 5 / 5L, 0 / False / 0.0, 'A' / 'a', one instant in six zones / tz implementations, midnight as DATE and DATE-TIME, equal durations, one representative per key-sorting class each of which comes first in one order) serialised in 31 different
     orders, each in a fresh process: every tree's bytes are the same whatever was serialised before it.
"""
import hashlib
import itertools
import os
import subprocess
import sys
from datetime import date, datetime, time, timedelta, timezone
from zoneinfo import ZoneInfo

from mc import env  # noqa: F401
from mc.snapshot import params_of, pyval

from icalendar.cal import Event, Calendar, Timezone, Todo, Alarm, Component, TimezoneStandard, FreeBusy, Journal
from icalendar.prop import (vText, vInt, vFloat, vBoolean, vBinary, vUri, vCalAddress, vDDDTypes, vDatetime, vDate,
                            vDuration, vPeriod, vDDDLists, vCategory, vRecur, vGeo, vUTCOffset, vTime, vInline)
from icalendar.parser import Parameters, Contentline

BERLIN = ZoneInfo("Europe/Berlin")
class EventList(Event):
    canonical_order = ["UID", "SUMMARY", "DTSTART"]


CLASSES = {"VEVENT:list-order": EventList, "VEVENT": Event, "VCALENDAR": Calendar, "VTIMEZONE": Timezone, "VTODO": Todo, "X-COMP": None, "VJOURNAL": Journal, "VFREEBUSY": FreeBusy}
POOLS = {
    "VEVENT": ("summary", "DTSTART", "uid", "x-b", "X-A", "attendee", "Rrule"),
    "VCALENDAR": ("version", "PRODID", "x-wr-calname", "method", "X-A", "calscale", "Name"),
    "VTIMEZONE": ("tzid", "X-LIC-LOCATION", "last-modified", "tzurl", "x-a", "COMMENT", "Zzz"),
    "VTODO": ("summary", "DUE", "uid", "x-b", "X-A", "priority", "Status"),
    "X-COMP": ("b", "A", "x-c", "summary", "DTSTART", "uid", "Z"),
    # an application's Event subclass whose priority names are held in a LIST: same law, and the list stays as declared
    "VEVENT:list-order": ("summary", "uid", "x-b", "X-A", "attendee", "Zz", "comment"),
    # names that tie under plausible "smarter" sort keys (numeric-aware, separator-insensitive, prefix-based)
    "VJOURNAL": ("X-R-1", "X-R-01", "X-R-10", "X-R-2", "X-R-001", "X-R_1", "X-R-1A"),
    # distinct names that are equal under str.casefold / compatibility folding (Kelvin sign, capital sharp s, Ohm sign):
    # a "caseless" sort key ties them and leaves insertion order
    "VFREEBUSY": ("X-TEMP-K", "X-TEMP-\u212a", "X-STRASSE", "X-STRA\u1e9eE", "X-R-\u03a9", "X-R-\u2126", "X-FOO_BAR"),
}


def value_for(name):
    n = name.upper()
    if n in ("DTSTART", "DUE", "LAST-MODIFIED"):
        return datetime(2024, 5, 1, 10, 0, tzinfo=BERLIN)
    if n == "RRULE":
        return {"freq": "daily", "count": 3}
    if n == "PRIORITY":
        return 5
    if n == "ATTENDEE":
        return "mailto:a@example.com"
    return "v-" + n.lower()


def new_component(cname):
    cls = CLASSES[cname]
    if cls:
        return cls()
    c = Component()
    c.name = cname
    return c


def names_in_output(data):
    """Property names of the top-level component's own lines (before the first nested BEGIN)."""
    lines = data.decode("utf-8").replace("\r\n ", "").split("\r\n")
    out = []
    depth = 0
    for ln in lines:
        if not ln:
            continue
        head = ln.split(":", 1)[0].split(";", 1)[0]
        if head == "BEGIN":
            depth += 1
            continue
        if head == "END":
            depth -= 1
            continue
        if depth == 1:
            out.append(head)
    return out


def balanced(data):
    stack = []
    for ln in data.decode("utf-8", "replace").replace("\r\n ", "").split("\r\n"):
        if ln.startswith("BEGIN:"):
            stack.append(ln[6:])
        elif ln.startswith("END:"):
            if not stack or stack.pop() != ln[4:]:
                return False
    return not stack and data.endswith(b"\r\n")


def fail(cls, case, expected, observed):
    return {"cls": cls, "case": case, "expected": expected, "observed": observed, "size": len(repr(case)),
            "unit_test": ("import sys; sys.path[:0] = ['/verif', '/repo/src']\nfrom mc.checks import c10\n"
                          f"r = c10.replay({case!r})\nfor f in r['fails']: print(f['cls'], f['expected'], f['observed'])\n")}


# ---------------------------------------------------------------- (A) properties
def run_props(case):
    _, cname, subset = case
    fails = []
    ref = None
    n = 0
    for perm in itertools.permutations(subset):
        n += 1
        c = new_component(cname)
        for name in perm:
            c.add(name, value_for(name))
        data = c.to_ical()
        if ref is None:
            ref = (perm, data)
        elif data != ref[1]:
            fails.append(fail("sorted-output-depends-on-insertion-order", ("props-perm", cname, perm), ref[1], data))
            break
        if not balanced(data):
            fails.append(fail("unbalanced-output", ("props-perm", cname, perm), "balanced BEGIN/END", data))
            break
        raw = c.to_ical(sorted=False)
        got = names_in_output(raw)
        if got != [p.upper() for p in perm]:
            fails.append(fail("unsorted-output-not-in-insertion-order", ("props-perm", cname, perm), [p.upper() for p in perm], got))
            break
        if c.to_ical() != data:
            fails.append(fail("second-serialisation-differs", ("props-perm", cname, perm), data, c.to_ical()))
            break
    if cname == "VEVENT:list-order" and EventList.canonical_order != ["UID", "SUMMARY", "DTSTART"]:
        fails.append(fail("serialising-changed-the-declared-priority-names", ("props-perm", cname, tuple(subset)), ["UID", "SUMMARY", "DTSTART"], list(EventList.canonical_order)))
        EventList.canonical_order = ["UID", "SUMMARY", "DTSTART"]
    return {"n": n, "state": (cname, tuple(sorted(p.upper() for p in subset)), ref[1] if ref else b""), "trans": 3 * n, "traces": n,
            "nnontrivial": n if len(subset) >= 2 else 0, "outcome": "props-ok" if not fails else "FAIL", "fails": fails}


# ---------------------------------------------------------------- (B) parameters
PARAM_POOL = (("cn", "Max"), ("ROLE", "CHAIR"), ("x-b", "1"), ("X-A", ["p", "q;r"]), ("language", "de"), ("x-r-1", "z"), ("X-R-01", "a"))


def run_params(case):
    _, subset = case
    fails = []
    ref = None
    n = 0
    for perm in itertools.permutations(subset):
        n += 1
        ev = Event()
        ev.add("attendee", "mailto:a@example.com", parameters={PARAM_POOL[i][0]: PARAM_POOL[i][1] for i in perm})
        data = ev.to_ical()
        if ref is None:
            ref = data
        elif data != ref:
            fails.append(fail("sorted-parameters-depend-on-insertion-order", ("params-perm", perm), ref, data))
            break
        raw = ev.to_ical(sorted=False).decode().replace("\r\n ", "")
        line = [ln for ln in raw.split("\r\n") if ln.startswith("ATTENDEE")][0]
        got = [seg.split("=")[0] for seg in line.split(":", 1)[0].split(";")[1:] if "=" in seg]
        # quoted values may contain ';' - recover names robustly from the Parameters object instead
        want = [PARAM_POOL[i][0].upper() for i in perm]
        got2 = [k for k in Parameters.from_ical(line[len("ATTENDEE;"):line.index(":mailto")]).keys()] if perm else []
        if got2 != want:
            fails.append(fail("unsorted-parameters-not-in-insertion-order", ("params-perm", perm), want, got2))
            break
        del got
    return {"n": n, "state": ("params", subset, ref), "trans": 2 * n, "traces": n, "nnontrivial": n if len(subset) >= 2 else 0,
            "outcome": "params-ok" if not fails else "FAIL", "fails": fails}


# ---------------------------------------------------------------- (C) repeated names / subcomponents
FALSY_TEXT = {"c1": "", "c2": "c2", "c3": ""}  # mode "falsy-values": the first / last repeated value is falsy


def run_repeat(case):
    _, mode, perm = case
    fails = []
    items = ("c1", "c2", "c3", "o1", "o2")
    order = [items[i] for i in perm]
    c = Event()
    if mode == "falsy-ints":
        # repeated integer property whose values include 0 (falsy): x-seq via typed values
        seq = {"c1": 0, "c2": 2, "c3": 0}
        for it in order:
            if it.startswith("c"):
                c.add("x-seq", vInt(seq[it]))
            else:
                c.add({"o1": "summary", "o2": "x-other"}[it], it)
        want = [str(seq[it]) for it in order if it.startswith("c")]
        for srt in (True, False):
            text = c.to_ical(sorted=srt).decode().replace("\r\n ", "")
            got = [ln.split(":", 1)[1] for ln in text.split("\r\n") if ln.startswith("X-SEQ:")]
            if got != want:
                fails.append(fail(f"repeated-{mode}-lose-insertion-order:sorted={srt}", case, want, got))
        return {"state": ("repeat", mode, tuple(want)), "trans": 2, "nontrivial": True, "outcome": "repeat-ok" if not fails else "FAIL",
                "fails": fails}
    for it in order:
        if mode == "falsy-values":
            if it.startswith("c"):
                c.add("comment", FALSY_TEXT[it])
            else:
                c.add({"o1": "summary", "o2": "x-other"}[it], it)
        elif mode == "values":
            if it.startswith("c"):
                c.add("comment", it)
            else:
                c.add({"o1": "summary", "o2": "x-other"}[it], it)
        else:
            if it.startswith("c"):
                sub = Alarm()
                sub.add("description", it)
                c.add_component(sub)
            else:
                c.add({"o1": "summary", "o2": "x-other"}[it], it)
    want = [(FALSY_TEXT[it] if mode == "falsy-values" else it) for it in order if it.startswith("c")]
    if mode in ("values", "falsy-values"):
        # sorting off: a name stands where it was FIRST inserted, all its values there, in the order they were added
        nm = {"c": "COMMENT", "o1": "SUMMARY", "o2": "X-OTHER"}
        first_seen = list(dict.fromkeys(nm["c"] if it.startswith("c") else nm[it] for it in order))
        want_names = [n_ for n_ in first_seen for _ in range(3 if n_ == "COMMENT" else 1)]
        got_names = names_in_output(c.to_ical(sorted=False))
        if got_names != want_names:
            fails.append(fail(f"repeated-{mode}:unsorted-output-not-in-first-insertion-order", case, want_names, got_names))
    for srt in (True, False):
        data = c.to_ical(sorted=srt)
        text = data.decode().replace("\r\n ", "")
        key = "COMMENT:" if mode in ("values", "falsy-values") else "DESCRIPTION:"
        got = [ln.split(":", 1)[1] for ln in text.split("\r\n") if ln.startswith(key)]
        if got != want:
            fails.append(fail(f"repeated-{mode}-lose-insertion-order:sorted={srt}", case, want, got))
        if not balanced(data):
            fails.append(fail("unbalanced-output", case, "balanced", data))
    return {"state": ("repeat", mode, tuple(want)), "trans": 2, "nontrivial": True, "outcome": "repeat-ok" if not fails else "FAIL",
            "fails": fails}


# ---------------------------------------------------------------- (D) purity
def value_menu():
    utc = timezone.utc
    z = datetime(2024, 3, 31, 1, 30, tzinfo=BERLIN)
    return [
        ("summary", vText("a;b,c\\d")), ("x-int", vInt(5)), ("x-float", vFloat(1.5)), ("x-bool", vBoolean(True)),
        ("attach", vBinary("payload")), ("url", vUri("http://x/y")), ("attendee", vCalAddress("mailto:a@b")),
        ("dtstart", vDDDTypes(date(2024, 1, 2))), ("dtend", vDDDTypes(datetime(2024, 1, 2, 3, 4, 5))),
        ("dtstamp", vDDDTypes(datetime(2024, 1, 2, 3, 4, 5, tzinfo=utc))), ("recurrence-id", vDDDTypes(z)),
        ("x-vdatetime-zoned", vDatetime(z)), ("x-vdatetime-utc", vDatetime(datetime(2024, 1, 1, tzinfo=utc))),
        ("x-vdatetime-naive", vDatetime(datetime(2024, 1, 1))), ("x-vdate", vDate(date(2024, 1, 2))),
        ("duration", vDuration(timedelta(hours=-1))), ("trigger", vDDDTypes(timedelta(minutes=15))),
        ("freebusy", vPeriod((z, z + timedelta(hours=1)))), ("x-period-dur", vPeriod((datetime(2024, 1, 1, tzinfo=utc), timedelta(hours=2)))),
        ("x-period-ddd", vDDDTypes((z, timedelta(hours=1)))),
        ("rdate", vDDDLists([z, z + timedelta(days=1)])), ("exdate", vDDDLists([date(2024, 1, 2)])),
        ("categories", vCategory(["a,b", "c"])), ("rrule", vRecur(freq="weekly", byday=["MO", "-1SU"], until=datetime(2025, 1, 1, tzinfo=utc))),
        ("geo", vGeo((1.5, -2.5))), ("x-geo-zeros", vGeo((0.0, -0.0))), ("x-float-negzero", vFloat(-0.0)), ("tzoffsetto", vUTCOffset(timedelta(hours=-5, minutes=-30))), ("x-time", vTime(time(1, 2, 3))),
        ("x-time-zoned", vTime(time(9, 0, tzinfo=BERLIN))), ("x-time-utc", vTime(time(9, 0, tzinfo=utc))),
        ("x-inline", vInline("raw,value")),
    ]


def state_only(c):
    """Observable state without calling to_ical on anything."""
    props = []
    for name in c.keys():
        vals = c[name]
        vals = vals if isinstance(vals, list) else [vals]
        props.append((name, tuple((type(v).__name__, params_of(v), pyval(v)) for v in vals)))
    return (c.name, tuple(props), tuple(state_only(s) for s in c.subcomponents), tuple(c.errors))


def purity_tree(idx, with_params, nested):
    menu = value_menu()
    name, value = menu[idx]
    ev = Event()
    if with_params:
        if not hasattr(value, "params"):
            value.params = Parameters()
        value.params["X-P"] = "1"
    if with_params == 3:
        # the value as the reader leaves it for a line without parameters: whatever the constructor derived (VALUE, TZID)
        # is replaced by an empty map; writing may not put anything back into the tree
        value.params = Parameters()
    if with_params == 2:
        # parameters a serialiser might be tempted to "tidy up" while writing (explicit TZID=UTC next to a Z value, a
        # VALUE that states the default, an empty and a list value): writing must leave them where the caller put them
        value.params["TZID"] = "UTC"
        value.params["VALUE"] = "DATE-TIME"
        value.params["X-EMPTY"] = ""
        value.params["X-LIST"] = ["b", "a"]
    ev[name] = value
    ev.add("uid", "u")
    if nested:
        al = Alarm()
        n2, v2 = menu[(idx + 7) % len(menu)]
        al[n2] = v2
        ev.add_component(al)
        cal = Calendar()
        cal.add_component(ev)
        return cal
    return ev


def run_purity(case):
    _, idx, with_params, nested, srt = case
    fails = []
    c = purity_tree(idx, with_params, nested)
    before = state_only(c)
    try:
        a = c.to_ical(sorted=srt)
    except Exception as e:  # noqa: BLE001
        return {"state": ("purity-raises", idx), "trans": 1, "outcome": "serialise-raises", "nontrivial": True,
                "fails": [fail("serialise-raises", case, "bytes", f"{type(e).__name__}: {e}")]}
    after = state_only(c)
    b = c.to_ical(sorted=srt)
    if before != after:
        fails.append(fail("to_ical-changed-the-tree", case, before, after))
    if a != b:
        fails.append(fail("second-serialisation-differs", case, a, b))
    if not balanced(a):
        fails.append(fail("unbalanced-output", case, "balanced", a))
    return {"state": ("purity", idx, with_params, nested, srt, a), "trans": 3, "nontrivial": True,
            "outcome": "pure" if not fails else "FAIL", "fails": fails}


# trees as the reader builds them, from lines that leave implicit what a careful writer states (no VALUE on dates /
# periods / absolute triggers, a stated default, TZID next to Z or on a DATE, an unknown TZID, empty values)
PARSED_LINES = (
    "EXDATE:20200108,20200115", "RDATE:20200101", "RDATE:20200101T000000Z/PT1H,20200102T000000Z/20200102T010000Z",
    "EXDATE:20200108T100000,20200115T100000", "EXDATE;TZID=Europe/Berlin:20200108T100000", "RDATE;VALUE=DATE:20200101,20200102",
    "DTSTART:20200101", "DTSTART;VALUE=DATE-TIME:20200101T000000Z", "DTSTART;TZID=UTC:20200101T000000",
    "DTSTART;TZID=Europe/Berlin:20200101T000000Z", "DTSTART;VALUE=DATE;TZID=Europe/Berlin:20200101",
    "DTEND;TZID=Unknown/Zone:20200101T000000", "DTEND;tzid=Europe/Berlin;value=date-time:20200101T000000",
    "RECURRENCE-ID;RANGE=THISANDFUTURE:20200101", "DUE:20200101T000000", "COMPLETED:20200101T000000", "DTSTAMP;TZID=Europe/Berlin:20200101T000000",
    "FREEBUSY:20200101T000000Z/PT1H,20200102T000000Z/PT0S", "DURATION:P7D", "DURATION:PT0S", "RRULE:FREQ=DAILY;UNTIL=20200101",
    "RRULE:freq=weekly;byday=mo,-1su;wkst=su", "CATEGORIES:", "CATEGORIES;LANGUAGE=en:a,,b", "GEO:1;2", "X-FOO;VALUE=DATE:20200101",
    "X-FOO;VALUE=PERIOD:20200101T000000Z/P1D", "ATTACH;VALUE=BINARY;ENCODING=BASE64:AAAA", "ATTACH:http://x/y", "SEQUENCE:007",
    "PRIORITY:+5", "TZOFFSETTO:+0000", "SUMMARY;LANGUAGE=:", "COMMENT:a\\Nb", "X-TIME;VALUE=TIME:000000", "X-BOOL;VALUE=BOOLEAN:true",
    "X-FLOAT;VALUE=FLOAT:1e3", "X-INT;VALUE=INTEGER:-0",
)
PARSED_ALARM_LINES = ("TRIGGER:20200101T000000Z", "TRIGGER;RELATED=end:-PT0S", "TRIGGER;VALUE=DURATION:P0D", "REPEAT:00", "DURATION:PT5M",
                      "ACKNOWLEDGED:20200101T000000", "TRIGGER;VALUE=DATE-TIME;TZID=Europe/Berlin:20200101T000000")


def run_purity_parsed(case):
    _, where, idx, srt, provider = case
    env.use_provider(provider)
    fails = []
    line = (PARSED_LINES if where == "event" else PARSED_ALARM_LINES)[idx]
    body = ["BEGIN:VCALENDAR", "BEGIN:VEVENT", "UID:u"] + ([line] if where == "event" else []) + \
           ["BEGIN:VALARM", "ACTION:DISPLAY"] + ([line] if where == "alarm" else []) + ["END:VALARM", "END:VEVENT", "END:VCALENDAR"]
    try:
        c = Calendar.from_ical("\r\n".join(body) + "\r\n")
    except ValueError as e:
        return {"state": ("parsed-rejected", where, idx), "trans": 1, "outcome": "rejected", "nontrivial": True,
                "fails": [fail("menu-line-rejected", case, "a tree", str(e))]}
    before = state_only(c)
    try:
        a = c.to_ical(sorted=srt)
    except ValueError:
        # not this property's business (C01/C04 decide what may be refused); purity of a refusal: the tree is unchanged
        a = None
    after = state_only(c)
    try:
        b = c.to_ical(sorted=srt)
    except ValueError:
        b = None
    if before != after:
        fails.append(fail("to_ical-changed-the-parsed-tree", case, before, after))
    if a != b:
        fails.append(fail("second-serialisation-of-parsed-tree-differs", case, a, b))
    if a is not None and not balanced(a):
        fails.append(fail("unbalanced-output", case, "balanced", a))
    return {"state": ("purity-parsed", where, idx, srt, provider, a), "trans": 3, "nontrivial": True,
            "outcome": ("pure" if a is not None else "refused-pure") if not fails else "FAIL", "fails": fails}


# ---------------------------------------------------------------- (A') nested trees, sorted on/off
def outline(data):
    """(NAME, [property names in order], [children]) of the first top-level component in the bytes."""
    lines = [ln for ln in data.decode("utf-8").replace("\r\n ", "").split("\r\n") if ln]
    root = None
    stack = []
    for ln in lines:
        head = ln.split(":", 1)[0].split(";", 1)[0]
        if head == "BEGIN":
            node = [ln.split(":", 1)[1], [], []]
            if stack:
                stack[-1][2].append(node)
            else:
                root = root or node
            stack.append(node)
        elif head == "END":
            stack.pop()
        elif stack:
            stack[-1][1].append(head)
    return root


NEST_EVENT = ("uid", "summary", "x-b", "dtstart")
NEST_ALARM = ("trigger", "action", "x-a")


def run_nested(case):
    _, pe, pa = case
    fails = []
    cal = Calendar()
    cal.add("prodid", "p")
    cal.add("version", "2.0")
    ev = Event()
    for i in pe:
        ev.add(NEST_EVENT[i], value_for(NEST_EVENT[i]))
    al = Alarm()
    for i in pa:
        al.add(NEST_ALARM[i], timedelta(minutes=-5) if NEST_ALARM[i] == "trigger" else "v")
    deep = Component()
    deep.name = "X-DEEP"
    deep.add("z", "1")
    deep.add("a", "2")
    al.add_component(deep)
    ev.add_component(al)
    ev2 = Todo()
    ev2.add("uid", "second")
    cal.add_component(ev)
    cal.add_component(ev2)
    want_unsorted = ["VCALENDAR", ["PRODID", "VERSION"], [
        ["VEVENT", [NEST_EVENT[i].upper() for i in pe], [["VALARM", [NEST_ALARM[i].upper() for i in pa], [["X-DEEP", ["Z", "A"], []]]]]],
        ["VTODO", ["UID"], []]]]
    raw = cal.to_ical(sorted=False)
    got = outline(raw)
    if got != want_unsorted:
        fails.append(fail("unsorted-nested-output-not-in-insertion-order", case, want_unsorted, got))
    srt = cal.to_ical()
    got_s = outline(srt)

    def shape(n):
        return [n[0], sorted(n[1]), [shape(c) for c in n[2]]]
    if got_s is None or shape(got_s) != shape(want_unsorted):
        fails.append(fail("sorted-nested-output-loses-or-moves-components", case, shape(want_unsorted), got_s and shape(got_s)))
    for d in (raw, srt):
        if not balanced(d):
            fails.append(fail("unbalanced-output", case, "balanced", d))
    return {"state": ("nested", tuple(pe), tuple(pa), srt), "trans": 2, "nontrivial": True,
            "outcome": "nested-ok" if not fails else "FAIL", "fails": fails}


def run_case(case):
    return {"props": run_props, "params": run_params, "repeat": run_repeat, "purity": run_purity, "purity-parsed": run_purity_parsed,
            "nested": run_nested}[case[0]](case)


def replay(case):
    if case[0] == "props-perm":
        return run_props(("props", case[1], case[2]))
    if case[0] == "params-perm":
        return run_params(("params", tuple(sorted(case[1]))))
    return run_case(case)


# ---------------------------------------------------------------- (F) hash seeds
def emit_per_tree(order):
    """Serialise the purity-menu trees (plus look-alike values) in the given order and print one digest per tree:
    the bytes of a tree must not depend on what was serialised earlier in the process."""
    from icalendar.prop import vMonth
    builders = []
    for idx in range(len(value_menu())):
        builders.append((f"menu{idx}", lambda idx=idx: purity_tree(idx, True, True)))
    rot = int(order[3:]) if order.startswith("rot") else 0

    def rotated(seq):
        seq = list(seq)
        k = rot % len(seq)
        return seq[k:] + seq[:k]
    for label, mk in rotated((("month5", lambda: vRecur(freq="yearly", bymonth=[vMonth(5)])), ("month5L", lambda: vRecur(freq="yearly", bymonth=[vMonth("5L")])),
                      ("int0", lambda: vInt(0)), ("boolF", lambda: vBoolean(False)), ("float0", lambda: vFloat(0.0)),
                      ("floatn0", lambda: vFloat(-0.0)), ("geo0", lambda: vGeo((0.0, 36.8))), ("geon0", lambda: vGeo((-0.0, 36.8))),
                      ("geo0n0", lambda: vGeo((0.0, -0.0))), ("int1", lambda: vInt(1)), ("boolT", lambda: vBoolean(True)), ("float1", lambda: vFloat(1.0)),
                      ("textA", lambda: vText("A")), ("texta", lambda: vText("a")), ("uriA", lambda: vUri("A")))):
        def build(mk=mk):
            ev = Event()
            ev["x-v"] = mk()
            return ev
        builders.append((label, build))
    # values that compare (and hash) equal although their texts differ: one instant in several zones and tz
    # implementations, midnight as DATE and as floating DATE-TIME, durations and periods built from them
    import pytz
    utc10 = datetime(2024, 6, 1, 10, tzinfo=timezone.utc)
    same = (("utc", utc10), ("zi-utc", utc10.astimezone(ZoneInfo("UTC"))), ("berlin", utc10.astimezone(ZoneInfo("Europe/Berlin"))),
            ("ny", utc10.astimezone(ZoneInfo("America/New_York"))), ("pytz-berlin", utc10.astimezone(pytz.timezone("Europe/Berlin"))),
            ("pytz-utc", utc10.astimezone(pytz.utc)), ("floating", datetime(2024, 6, 1, 10)),
            ("midnight", datetime(2024, 6, 1)), ("date", date(2024, 6, 1)))
    for label, v in rotated(same):
        for prop, wrap in (("dtstart", lambda v: v), ("rdate", lambda v: [v]), ("exdate", lambda v: [v, v])):
            def build(prop=prop, v=wrap(v)):
                ev = Event()
                ev.add(prop, v)
                return ev
            builders.append((f"{prop}-{label}", build))
        if isinstance(v, datetime):
            def build(v=v):
                fb = FreeBusy()
                fb.add("freebusy", [(v, timedelta(hours=1)), (v + timedelta(hours=2), v + timedelta(hours=3))])
                return fb
            builders.append((f"freebusy-{label}", build))
    for label, td in rotated((("24h", timedelta(hours=24)), ("1d", timedelta(days=1)), ("0", timedelta(0)), ("-0", -timedelta(0)),
                              ("7d", timedelta(days=7)), ("1w", timedelta(weeks=1)))):
        def build(td=td):
            ev = Event()
            ev.add("duration", td)
            a = Alarm()
            a.add("trigger", td)
            ev.add_component(a)
            return ev
        builders.append((f"duration-{label}", build))
    # one representative per class that sorts its keys: class-level state must not leak between them, whichever is used
    # first in the process (orders "first:<label>")
    from icalendar.caselessdict import CaselessDict

    class Raw:
        def __init__(self, fn):
            self.fn = fn

        def to_ical(self):
            r = self.fn()
            return r if isinstance(r, bytes) else repr(r).encode()

    def generic():
        c = Component()
        c.name = "X-GEN"
        for k in ("uid", "z", "dtstart", "a", "summary"):
            c[k] = vText("v")
        return c

    def filled(cls):
        c = cls()
        for k in ("x-z", "location", "uid", "action", "tzid", "trigger", "dtstart", "summary", "version", "prodid", "a"):
            c[k] = vText("v")
        return c

    class MyEvent(Event):
        canonical_order = ("LOCATION", "A", "UID")

    def cal_unknown_first():
        cal = Calendar()
        cal.add("version", "2.0")
        cal.add("prodid", "p")
        cal.add_component(generic())
        cal.add_component(filled(Event))
        return cal
    for label, mk in (("k-generic", generic), ("k-caselessdict", lambda: Raw(lambda: CaselessDict(summary=1, b=2, uid=3, a=4).sorted_keys())),
                      ("k-parameters", lambda: Raw(lambda: Parameters({"x-z": "1", "cn": "2", "a": "3"}).to_ical())),
                      ("k-event", lambda: filled(Event)), ("k-todo", lambda: filled(Todo)), ("k-alarm", lambda: filled(Alarm)),
                      ("k-journal", lambda: filled(Journal)), ("k-freebusy", lambda: filled(FreeBusy)),
                      ("k-calendar", lambda: filled(Calendar)), ("k-timezone", lambda: filled(Timezone)),
                      ("k-standard", lambda: filled(TimezoneStandard)), ("k-myevent", lambda: filled(MyEvent)),
                      ("k-recur", lambda: Raw(lambda: vRecur(wkst="MO", byday=["MO"], count=3, freq="weekly", interval=2).to_ical())),
                      ("k-cal-unknown-first", cal_unknown_first)):
        builders.append((label, mk))
    if order.startswith("first:"):
        builders.sort(key=lambda b: b[0] != order[6:])
    if order == "reverse":
        builders = builders[::-1]
    elif order == "interleaved":
        builders = builders[1::2] + builders[0::2]
    out = {}
    for label, mk in builders:
        out[label] = hashlib.sha256(mk().to_ical()).hexdigest()[:16]
    print(" ".join(f"{k}={v}" for k, v in sorted(out.items())))


def emit_digest():
    """Build a fixed family of trees and print one digest (run in sub-processes with different PYTHONHASHSEED)."""
    h = hashlib.sha256()
    n = 0
    for cname, pool in POOLS.items():
        for k in (2, 3):
            for subset in itertools.combinations(pool, k):
                c = new_component(cname)
                for name in subset:
                    c.add(name, value_for(name), parameters={"x-z": "1", "X-A": "2", "cn": "3"} if name.upper().startswith("X") else None)
                h.update(c.to_ical())
                h.update(c.to_ical(sorted=False))
                n += 1
    for idx in range(len(value_menu())):
        for nested in (False, True):
            h.update(purity_tree(idx, True, nested).to_ical())
            n += 1
    # set-valued inputs the API accepts
    ev = Event()
    ev.add("categories", ["b", "a", "c"])
    ev.add("rrule", {"freq": "yearly", "bymonth": [3, 1, 2], "byday": ["SU", "MO"], "x-foo": "1", "wkst": "MO"})
    h.update(ev.to_ical())
    # date lists mixing value kinds (every pair and the triple of DATE / DATE-TIME / PERIOD / TIME, both orders)
    kinds = {"date": date(2024, 2, 1), "dt": datetime(2024, 3, 1, 10, tzinfo=timezone.utc),
             "period": (datetime(2024, 3, 1, 10, tzinfo=timezone.utc), datetime(2024, 3, 1, 11, tzinfo=timezone.utc)),
             "perdur": (datetime(2024, 3, 2, 10, tzinfo=timezone.utc), timedelta(hours=1)), "time": time(10, 30)}
    for k in (2, 3):
        for combo in itertools.permutations(kinds, k):
            for prop in ("rdate", "exdate"):
                e2 = Event()
                try:
                    e2.add(prop, [kinds[c] for c in combo])
                    h.update(e2.to_ical())
                except Exception as exc:  # noqa: BLE001 - a refusal must be the same refusal under every seed
                    h.update(type(exc).__name__.encode())
                n += 1
    # fixed-offset tzinfo objects (no zone id of their own): every quarter-hour offset from -12:00 to +14:00
    import dateutil.tz
    for minutes in range(-12 * 60, 14 * 60 + 1, 15):
        for mk in (lambda m: timezone(timedelta(minutes=m)), lambda m: dateutil.tz.tzoffset(None, m * 60)):
            e3 = Event()
            try:
                e3.add("dtstart", datetime(2024, 5, 6, 9, 0, tzinfo=mk(minutes)))
                e3.add("rdate", [datetime(2024, 5, 7, 9, 0, tzinfo=mk(minutes))])
                h.update(e3.to_ical())
            except Exception as exc:  # noqa: BLE001
                h.update(type(exc).__name__.encode())
            n += 1
    # list-valued inputs holding the same element more than once (built through the API and parsed): whatever the library
    # makes of the repetition, it makes the same of it under every seed
    dup = Event()
    dup.add("categories", ["Work", "Home", "Work", "Travel", "Budget", "Home", "Family", "work"])
    dup.add("resources", ["Beamer", "Room", "Beamer"])
    dup.add("rdate", [date(2024, 1, 3), date(2024, 1, 1), date(2024, 1, 3), date(2024, 1, 2)])
    dup.add("exdate", [datetime(2024, 1, 3, 9), datetime(2024, 1, 1, 9), datetime(2024, 1, 3, 9)])
    dup.add("rrule", {"freq": "weekly", "byday": ["MO", "TU", "MO", "-1SU", "TU"], "bymonth": [3, 3, 1, 12, 1], "bysetpos": [1, -1, 1]})
    dup.add("attendee", "mailto:a@x", parameters={"MEMBER": ["mailto:g1@x", "mailto:g2@x", "mailto:g1@x"], "DELEGATED-TO": ["mailto:b@x", "mailto:b@x"]})
    dup.add("attendee", "mailto:a@x")
    dup.add("attendee", "mailto:a@x")
    dup.add("freebusy", [(datetime(2024, 3, 1, 10, tzinfo=timezone.utc), timedelta(hours=1))] * 3)
    h.update(dup.to_ical())
    h.update(dup.to_ical(sorted=False))
    back = Event.from_ical(dup.to_ical())
    h.update(back.to_ical())
    n += 3
    for text in ("CATEGORIES:a,b,a,c,b,A", "RDATE;VALUE=DATE:20240103,20240101,20240103", "RRULE:FREQ=YEARLY;BYMONTH=5,3,5;BYDAY=FR,MO,FR",
                 "EXDATE:20240103T090000Z,20240103T090000Z,20240101T090000Z", "ATTENDEE;MEMBER=\"mailto:a@x\",\"mailto:b@x\",\"mailto:a@x\":mailto:c@x"):
        pe = Event.from_ical("BEGIN:VEVENT\r\n" + text + "\r\n" + text + "\r\nEND:VEVENT\r\n")
        h.update(pe.to_ical())
        n += 1
    print(h.hexdigest(), n)


def run(ctx):
    kmax = 5 if ctx.quick else 6
    seeds = range(8) if ctx.quick else range(64)
    ctx.rule = (f"E-hist: (A) all permutations of all subsets (<= {kmax} of 7) of distinct property names on 5 component kinds; "
                "(A') all 144 insertion orders of a 4-level nested tree (calendar > event > alarm > unknown component) serialised with sorting on and off; (B) all permutations of all subsets (<=4) of 7 parameters; (C) all 120 interleavings of 3 repeated values (also with falsy first/last values: empty text, integer 0) / 3 "
                "subcomponents with 2 other properties; (D) purity on a 30-value-class menu x {no params, a parameter, parameters a writer might tidy up: TZID=UTC / VALUE / empty / list, the parameter map emptied as the reader does} x nesting x sorted flag, and on 45 trees PARSED from lines that leave VALUE / TZID implicit or state defaults x sorted flag x provider; "
                f"(E) BEGIN/END balance of every output; (F) {len(seeds)} PYTHONHASHSEED values, one digest over ~260 trees each (incl. list values that hold one element several times: CATEGORIES, RESOURCES, RDATE, EXDATE, rule parts, MEMBER lists, repeated ATTENDEE / FREEBUSY, API-built and parsed). "
                "non-trivial = at least two names/parameters or any repeated/purity case.")
    ctx.bounds = {"max_subset": kmax, "pool": 7, "hash_seeds": len(seeds)}
    ctx.assumptions += ["not all 2^32 hash seeds: a fixed range of seeds is enumerated (stated, not claimed)"]
    nvals = len(value_menu())

    def gen():
        for cname, pool in POOLS.items():
            for k in range(0, kmax + 1):
                for subset in itertools.combinations(pool, k):
                    yield ("props", cname, subset)
        for k in range(0, 5):
            for subset in itertools.combinations(range(len(PARAM_POOL)), k):
                yield ("params", subset)
        for mode in ("values", "subcomponents", "falsy-values", "falsy-ints"):
            for perm in itertools.permutations(range(5)):
                yield ("repeat", mode, perm)
        for pe in itertools.permutations(range(len(NEST_EVENT))):
            for pa in itertools.permutations(range(len(NEST_ALARM))):
                yield ("nested", pe, pa)
        for idx in range(nvals):
            for wp in (False, True, 2, 3):
                for nested in (False, True):
                    for srt in (True, False):
                        yield ("purity", idx, wp, nested, srt)
        for provider in env.PROVIDERS:
            for where, menu in (("event", PARSED_LINES), ("alarm", PARSED_ALARM_LINES)):
                for idx in range(len(menu)):
                    for srt in (True, False):
                        yield ("purity-parsed", where, idx, srt, provider)

    ctx.explore("insertion histories + purity", gen, run_case)
    # (F)
    digests = {}
    procs = []
    for s in seeds:
        envv = dict(os.environ, PYTHONHASHSEED=str(s))
        procs.append((s, subprocess.Popen([sys.executable, "-c", "from mc.checks import c10; c10.emit_digest()"],
                                          cwd=os.path.dirname(os.path.dirname(os.path.dirname(os.path.abspath(__file__)))),
                                          env=envv, stdout=subprocess.PIPE, stderr=subprocess.PIPE, text=True)))
    for s, p in procs:
        out, err = p.communicate()
        if p.returncode != 0:
            from mc.core import HarnessError
            raise HarnessError(f"hash-seed subprocess failed: {err[-500:]}")
        digests[s] = out.strip().split()[0]
    distinct = sorted(set(digests.values()))
    ctx.part("hash-seeds", seeds=len(digests), distinct_digests=len(distinct))
    res = {"n": len(digests), "state": ("hashseed", tuple(distinct)), "trans": len(digests), "traces": len(digests),
           "nontrivial": True, "outcome": "hashseed-ok" if len(distinct) == 1 else "FAIL", "fails": []}
    if len(distinct) != 1:
        res["fails"].append(fail("output-depends-on-PYTHONHASHSEED", ("hashseed", tuple(sorted(digests.items()))), "one digest", distinct))
    ctx.absorb("hash-seeds", ("hashseed", len(digests)), res)
    # (G) history independence across a process: per-tree digests in three serialisation orders
    maps = {}
    orders = ("forward", "reverse", "interleaved") + tuple(f"rot{k}" for k in range(1, 15)) + tuple(
        f"first:{k}" for k in ("k-generic", "k-caselessdict", "k-parameters", "k-event", "k-todo", "k-alarm", "k-journal", "k-freebusy",
                               "k-calendar", "k-timezone", "k-standard", "k-myevent", "k-recur", "k-cal-unknown-first"))
    for order in orders:
        p = subprocess.run([sys.executable, "-c", f"from mc.checks import c10; c10.emit_per_tree({order!r})"],
                           cwd=os.path.dirname(os.path.dirname(os.path.dirname(os.path.abspath(__file__)))),
                           env=dict(os.environ, PYTHONHASHSEED="0"), capture_output=True, text=True)
        if p.returncode != 0:
            from mc.core import HarnessError
            raise HarnessError(f"order subprocess failed: {p.stderr[-500:]}")
        maps[order] = dict(kv.split("=") for kv in p.stdout.strip().split())
    diff = sorted(k for k in maps["forward"] if len({m.get(k) for m in maps.values()}) != 1)
    ctx.part("process-history", orders=len(orders), trees=len(maps["forward"]), differing=len(diff))
    res = {"n": len(orders) * len(maps["forward"]), "state": ("orders", tuple(diff)), "trans": len(orders) * len(maps["forward"]), "traces": len(orders),
           "nontrivial": True, "outcome": "orders-ok" if not diff else "FAIL", "fails": []}
    if diff:
        res["fails"].append(fail("bytes-depend-on-what-was-serialised-before", ("orders", tuple(diff)), "same bytes in every order", diff))
    ctx.absorb("process-history", ("orders", len(orders)), res)
