"""C03 - every typed value codec is its own inverse and emits RFC 5545 value grammar.

E-dom: complete sweeps of finite semantic domains (all dates, all seconds of the day, all whole-second UTC offsets
below 24h, all whole-second durations up to a bound) plus structured grids for unbounded domains (integers, floats,
periods, binary payloads, weekday/frequency/month texts) and the grammar direction (every text of each RFC grammar over
small digit menus decodes to the reference value and is classified correctly by the combined decoder).
Cases are chunks (one year, one hour, ...); each element is executed on the real codec classes.
"""
import itertools
import math
import struct
from datetime import date, datetime, time, timedelta

from mc import env  # noqa: F401
from mc.refmodel import rfc_values as V

from icalendar.prop import (vDate, vDatetime, vTime, vDuration, vPeriod, vUTCOffset, vInt, vFloat, vBoolean, vBinary,
                            vGeo, vUri, vCalAddress, vWeekday, vFrequency, vMonth, vDDDTypes)
from icalendar.timezone import tzp

MAXF = 3  # failures kept per chunk and class


def b2s(x):
    return x.decode("utf-8") if isinstance(x, bytes) else x


class Chunk:
    def __init__(self, case):
        self.case = case
        self.fails = []
        self.seen = {}
        self.n = 0
        self.trans = 0
        self.nt = 0
        self.kinds = set()

    def fail(self, cls, elem, expected, observed):
        k = self.seen.get(cls, 0)
        self.seen[cls] = k + 1
        if k < MAXF:
            self.fails.append({"cls": cls, "case": ("elem",) + tuple(elem), "expected": expected, "observed": observed,
                               "size": len(repr(elem))})

    def result(self):
        return {"n": self.n, "nstates": self.n, "nnontrivial": self.nt, "trans": self.trans, "traces": self.n,
                "state": ("chunk", self.case), "fails": self.fails,
                "outcome": "ok" if not self.fails else "FAIL:" + ",".join(sorted(self.seen))}


def guard(fn, *a):
    try:
        return ("ok", fn(*a))
    except Exception as e:  # noqa: BLE001
        return ("exc", type(e).__name__ + ": " + str(e)[:80])


# ---------------------------------------------------------------- element checkers
from mc.userkinds import Stamp, Day  # noqa: E402


def el_date(c, d):
    c.n += 1
    c.trans += 4
    c.nt += 1
    elem = ("date", d.year, d.month, d.day)
    t = guard(lambda: b2s(vDate(d).to_ical()))
    if t[0] != "ok" or not V.RX["DATE"].match(t[1]) or t[1] != V.enc_date(d):
        return c.fail("DATE:encode", elem, V.enc_date(d), t)
    back = guard(vDate.from_ical, t[1])
    if back != ("ok", d) or type(back[1]) is not date:
        c.fail("DATE:decode", elem, d, back)
    comb = guard(vDDDTypes.from_ical, t[1])
    if comb != ("ok", d) or type(comb[1]) is not date:
        c.fail("DATE:combined-decoder", elem, d, comb)
    t2 = guard(lambda: b2s(vDDDTypes(d).to_ical()))
    if t2 != t:
        c.fail("DATE:combined-encoder", elem, t, t2)
    # an instance of a user subclass of date is a date (mc/userkinds.py)
    sd = Day(d.year, d.month, d.day)
    t3 = guard(lambda: (b2s(vDDDTypes(sd).to_ical()), b2s(vDate(sd).to_ical())))
    if t3 != ("ok", (t[1], t[1])):
        c.fail("DATE:subclass-instance-encodes-differently", elem, t, t3)


def el_datetime(c, dt, utc):
    c.n += 1
    c.trans += 4
    c.nt += 1
    elem = ("datetime", dt.year, dt.month, dt.day, dt.hour, dt.minute, dt.second, utc)
    val = tzp.localize_utc(dt) if utc else dt
    want_text = V.enc_date(dt) + "T" + V.enc_time(dt) + ("Z" if utc else "")
    t = guard(lambda: b2s(vDatetime(val).to_ical()))
    if t != ("ok", want_text) or not V.RX["DATE-TIME"].match(t[1]):
        return c.fail("DATE-TIME:encode", elem, want_text, t)
    back = guard(vDatetime.from_ical, t[1])
    ok = back[0] == "ok" and isinstance(back[1], datetime) and back[1].replace(tzinfo=None) == dt and \
        ((back[1].tzinfo is None) if not utc else (back[1].utcoffset() == timedelta(0)))
    if not ok:
        c.fail("DATE-TIME:decode", elem, val, back)
    comb = guard(vDDDTypes.from_ical, t[1])
    if comb != back or not isinstance(comb[1], datetime):
        c.fail("DATE-TIME:combined-decoder", elem, back, comb)
    t2 = guard(lambda: b2s(vDDDTypes(val).to_ical()))
    if t2 != t:
        c.fail("DATE-TIME:combined-encoder", elem, t, t2)
    # an instance of a user subclass of datetime is a date-time (mc/userkinds.py)
    sv = Stamp(val.year, val.month, val.day, val.hour, val.minute, val.second, tzinfo=val.tzinfo)
    t3 = guard(lambda: (b2s(vDDDTypes(sv).to_ical()), b2s(vDatetime(sv).to_ical())))
    if t3 != ("ok", (t[1], t[1])):
        c.fail("DATE-TIME:subclass-instance-encodes-differently", elem, t, t3)


def el_time(c, tm):
    c.n += 1
    c.trans += 3
    c.nt += 1
    elem = ("time", tm.hour, tm.minute, tm.second)
    want = V.enc_time(tm)
    t = guard(lambda: b2s(vTime(tm).to_ical()))
    if t != ("ok", want) or not V.RX["TIME"].match(t[1]):
        return c.fail("TIME:encode", elem, want, t)
    back = guard(vTime.from_ical, t[1])
    if back != ("ok", tm):
        c.fail("TIME:decode", elem, tm, back)
    comb = guard(vDDDTypes.from_ical, t[1])
    if comb != ("ok", tm) or type(comb[1]) is not time:
        c.fail("TIME:combined-decoder", elem, tm, comb)
    # grammar direction: the UTC form decodes to the same clock fields (class documents no zone support)
    z = guard(vDDDTypes.from_ical, want + "Z")
    if z[0] != "ok" or type(z[1]) is not time or (z[1].hour, z[1].minute, z[1].second) != (tm.hour, tm.minute, tm.second):
        c.fail("TIME:utc-form", elem, tm, z)


def el_duration(c, td):
    c.n += 1
    c.trans += 3
    c.nt += 1
    elem = ("duration", td.days, td.seconds)
    t = guard(lambda: b2s(vDuration(td).to_ical()))
    if t[0] != "ok" or not V.RX["DURATION"].match(t[1]):
        return c.fail("DURATION:encode-grammar", elem, "dur-value", t)
    if V.dec_duration(t[1]) != td:
        return c.fail("DURATION:encode-denotes-other-value", elem, td, t)
    back = guard(vDuration.from_ical, t[1])
    if back != ("ok", td):
        c.fail("DURATION:decode", elem, td, back)
    comb = guard(vDDDTypes.from_ical, t[1])
    if comb != ("ok", td) or not isinstance(comb[1], timedelta):
        c.fail("DURATION:combined-decoder", elem, td, comb)
    t2 = guard(lambda: b2s(vDDDTypes(td).to_ical()))
    if t2 != t:
        c.fail("DURATION:combined-encoder", elem, t, t2)


def el_duration_text(c, text):
    c.n += 1
    c.trans += 2
    c.nt += 1
    elem = ("duration-text", text)
    assert V.RX["DURATION"].match(text), text
    want = V.dec_duration(text)
    back = guard(vDuration.from_ical, text)
    if back != ("ok", want):
        c.fail("DURATION:grammar-text-decode", elem, want, back)
    comb = guard(vDDDTypes.from_ical, text)
    if comb != ("ok", want):
        c.fail("DURATION:grammar-text-combined", elem, want, comb)


def el_offset(c, secs):
    c.n += 1
    c.trans += 2
    c.nt += 1
    td = timedelta(seconds=secs)
    elem = ("offset", secs)
    a = abs(secs)
    want = ("-" if secs < 0 else "+") + f"{a // 3600:02d}{a % 3600 // 60:02d}" + (f"{a % 60:02d}" if a % 60 else "")
    t = guard(lambda: b2s(vUTCOffset(td).to_ical()))
    if t != ("ok", want) or not V.RX["UTC-OFFSET"].match(t[1]):
        return c.fail("UTC-OFFSET:encode", elem, want, t)
    back = guard(vUTCOffset.from_ical, t[1])
    if back != ("ok", td):
        c.fail("UTC-OFFSET:decode", elem, td, back)
    # grammar direction: the 6-digit form with explicit 00 seconds
    if a % 60 == 0 and not (secs == 0):
        g = guard(vUTCOffset.from_ical, want + "00")
        if g != ("ok", td):
            c.fail("UTC-OFFSET:grammar-text-decode", elem, td, g)


def el_period(c, start, end, utc, by_duration):
    c.n += 1
    c.trans += 3
    c.nt += 1
    elem = ("period", start.isoformat(), end.isoformat(), utc, by_duration)
    s = tzp.localize_utc(start) if utc else start
    e = tzp.localize_utc(end) if utc else end
    z = "Z" if utc else ""
    st = V.enc_date(start) + "T" + V.enc_time(start) + z
    if by_duration:
        val = (s, e - s)
    else:
        val = (s, e)
    t = guard(lambda: b2s(vPeriod(val).to_ical()))
    if t[0] != "ok" or not V.RX["PERIOD"].match(t[1]) or not t[1].startswith(st + "/"):
        return c.fail("PERIOD:encode", elem, st + "/...", t)
    tail = t[1].split("/")[1]
    if by_duration:
        if V.dec_duration(tail) != e - s:
            return c.fail("PERIOD:encode-duration", elem, e - s, t)
    elif tail != V.enc_date(end) + "T" + V.enc_time(end) + z:
        return c.fail("PERIOD:encode-end", elem, end, t)
    back = guard(vPeriod.from_ical, t[1])
    if back != ("ok", val):
        c.fail("PERIOD:decode", elem, val, back)
    comb = guard(vDDDTypes.from_ical, t[1])
    if comb != ("ok", val) or not isinstance(comb[1], tuple):
        c.fail("PERIOD:combined-decoder", elem, val, comb)
    t2 = guard(lambda: b2s(vDDDTypes(val).to_ical()))
    if t2 != t:
        c.fail("PERIOD:combined-encoder", elem, t, t2)


def el_period_text(c, text, want):
    c.n += 1
    c.trans += 2
    c.nt += 1
    elem = ("period-text", text)
    for label, fn in (("PERIOD", vPeriod.from_ical), ("combined", vDDDTypes.from_ical)):
        got = guard(fn, text)
        if got != ("ok", want):
            c.fail(f"PERIOD:grammar-text-{label}", elem, want, got)


def el_int(c, i):
    c.n += 1
    c.trans += 2
    c.nt += 1
    elem = ("int", str(i))
    t = guard(lambda: b2s(vInt(i).to_ical()))
    if t != ("ok", str(i)) or not V.RX["INTEGER"].match(t[1]):
        return c.fail("INTEGER:encode", elem, str(i), t)
    back = guard(vInt.from_ical, t[1])
    if back != ("ok", i):
        c.fail("INTEGER:decode", elem, i, back)
    if i >= 0:
        g = guard(vInt.from_ical, "+" + str(i))
        if g != ("ok", i):
            c.fail("INTEGER:plus-form", elem, i, g)


def el_float(c, x):
    c.n += 1
    c.trans += 2
    c.nt += 1
    elem = ("float", x.hex())
    t = guard(lambda: b2s(vFloat(x).to_ical()))
    if t[0] != "ok" or not V.RX["FLOAT"].match(t[1]):
        return c.fail("FLOAT:encode-grammar", elem, "float = [sign] 1*DIGIT [. 1*DIGIT]", t)
    back = guard(vFloat.from_ical, t[1])
    if back[0] != "ok" or float(back[1]) != x or math.copysign(1, float(back[1])) != math.copysign(1, x):
        c.fail("FLOAT:decode", elem, x, back)
    if V.dec_float(t[1]) != x:
        c.fail("FLOAT:encode-denotes-other-value", elem, x, t)


def el_float_text(c, text):
    c.n += 1
    c.trans += 1
    c.nt += 1
    want = V.dec_float(text)
    back = guard(vFloat.from_ical, text)
    if back[0] != "ok" or float(back[1]) != want:
        c.fail("FLOAT:grammar-text-decode", ("float-text", text), want, back)


def el_geo(c, lat, lon):
    c.n += 1
    c.trans += 2
    c.nt += 1
    elem = ("geo", lat.hex(), lon.hex())
    t = guard(lambda: b2s(vGeo((lat, lon)).to_ical()))
    if t[0] != "ok" or not V.RX["GEO"].match(t[1]):
        return c.fail("GEO:encode-grammar", elem, "float;float", t)
    back = guard(vGeo.from_ical, t[1])
    if back != ("ok", (lat, lon)):
        c.fail("GEO:decode", elem, (lat, lon), back)


def el_binary(c, s):
    c.n += 1
    c.trans += 2
    c.nt += 1
    elem = ("binary", s)
    t = guard(lambda: b2s(vBinary(s).to_ical()))
    if t[0] != "ok" or not V.RX["BINARY"].match(t[1]):
        return c.fail("BINARY:encode-grammar", elem, "base64", t)
    back = guard(vBinary.from_ical, t[1])
    if back != ("ok", s.encode("utf-8")):
        c.fail("BINARY:decode", elem, s.encode("utf-8"), back)


def el_weekday(c, text):
    c.n += 1
    c.trans += 2
    c.nt += 1
    elem = ("weekday", text)
    rel, wd = V.dec_weekday(text)
    v = guard(vWeekday.from_ical, text)
    if v[0] != "ok" or (v[1].relative, v[1].weekday) != (rel, wd):
        return c.fail("WEEKDAY:grammar-text-decode", elem, (rel, wd), (v[0], getattr(v[1], "relative", None), getattr(v[1], "weekday", v[1])))
    t = guard(lambda: b2s(vWeekday(text.upper()).to_ical()))
    if t[0] != "ok" or not V.RX["WEEKDAYNUM"].match(t[1]) or V.dec_weekday(t[1]) != (rel, wd):
        return c.fail("WEEKDAY:encode", elem, text.upper(), t)
    back = guard(vWeekday.from_ical, t[1])
    if back[0] != "ok" or (back[1].relative, back[1].weekday) != (rel, wd):
        c.fail("WEEKDAY:decode", elem, (rel, wd), back)


def el_freq(c, text):
    c.n += 1
    c.trans += 2
    c.nt += 1
    v = guard(vFrequency.from_ical, text)
    if v != ("ok", text.upper()):
        return c.fail("FREQ:grammar-text-decode", ("freq", text), text.upper(), v)
    t = guard(lambda: b2s(vFrequency(text).to_ical()))
    if t != ("ok", text.upper()) or not V.RX["FREQ"].match(t[1]):
        c.fail("FREQ:encode", ("freq", text), text.upper(), t)


def el_month(c, num, leap):
    c.n += 1
    c.trans += 2
    c.nt += 1
    text = f"{num}{'L' if leap else ''}"
    v = guard(vMonth.from_ical, text)
    if v[0] != "ok" or int(v[1]) != num or v[1].leap != leap:
        return c.fail("MONTH:grammar-text-decode", ("month", num, leap), (num, leap), v)
    t = guard(lambda: b2s(vMonth(v[1]).to_ical()))
    if t != ("ok", text) or not V.RX["MONTH"].match(t[1]):
        c.fail("MONTH:encode", ("month", num, leap), text, t)
    if not leap:
        t3 = guard(lambda: b2s(vMonth(num).to_ical()))
        if t3 != ("ok", text):
            c.fail("MONTH:encode-int", ("month", num, leap), text, t3)


def el_uri(c, cls, s):
    c.n += 1
    c.trans += 2
    c.nt += 1
    t = guard(lambda: b2s(cls(s).to_ical()))
    if t != ("ok", s):
        return c.fail(f"{cls.__name__}:encode", ("uri", cls.__name__, s), s, t)
    back = guard(cls.from_ical, t[1])
    if back != ("ok", s) or type(back[1]) is not cls:
        c.fail(f"{cls.__name__}:decode", ("uri", cls.__name__, s), s, back)


def el_bool(c, b):
    c.n += 1
    c.trans += 2
    c.nt += 1
    t = guard(lambda: b2s(vBoolean(b).to_ical()))
    want = "TRUE" if b else "FALSE"
    if t != ("ok", want):
        return c.fail("BOOLEAN:encode", ("bool", b), want, t)
    for text in (want, want.lower(), want.capitalize()):
        back = guard(vBoolean.from_ical, text)
        if back[0] != "ok" or bool(back[1]) != b:
            c.fail("BOOLEAN:decode", ("bool", b), b, back)


# ---------------------------------------------------------------- grids
TIMES6 = (time(0, 0, 0), time(0, 0, 1), time(11, 59, 59), time(12, 0, 0), time(23, 59, 0), time(23, 59, 59))
BOUNDARY_DATES = [date(1, 1, 1), date(1, 12, 31), date(99, 1, 1), date(100, 2, 28), date(999, 12, 31), date(1000, 1, 1),
                  date(1582, 10, 4), date(1582, 10, 15), date(1600, 2, 29), date(1700, 2, 28), date(1899, 12, 31),
                  date(1900, 1, 1), date(1900, 2, 28), date(1969, 12, 31), date(1970, 1, 1), date(1999, 12, 31),
                  date(2000, 1, 1), date(2000, 2, 29), date(2001, 9, 9), date(2004, 2, 29), date(2010, 10, 10),
                  date(2011, 11, 11), date(2012, 12, 12), date(2016, 12, 31), date(2024, 2, 29), date(2024, 3, 31),
                  date(2024, 10, 27), date(2037, 12, 31), date(2038, 1, 19), date(2038, 1, 20), date(2100, 2, 28),
                  date(2100, 3, 1), date(2400, 2, 29), date(4000, 2, 29), date(9999, 1, 1), date(9999, 12, 30),
                  date(9999, 12, 31), date(5000, 6, 15), date(1234, 5, 6), date(8765, 4, 3)]
PAYLOAD = ("a", "é", "€", "\U0001F600", "\x00", "\n")
URIS = ("mailto:jane_doe@example.com", "http://example.com/my-report.txt?a=1,2;b=3#frag", "urn:uuid:1-2", "x",
        "http://x/\\,y\\;z\\\\", "CID:part3.msg.970415T083000@example.com", "ldap://host:6666/o=ABC%20Inc,c=US???(cn=J)",
        "mailto:é€@例え.jp", "a b", "%2C%3A")


def float_grid():
    seen = set()
    for m in (1, 2, 3, 4, 5, 6, 7, 8, 9, 15, 123456789):
        for e in range(-324, 309):
            try:
                x = float(f"{m}e{e}")
            except OverflowError:
                continue
            if math.isfinite(x):
                seen.add(x)
                seen.add(-x)
    for e in range(-1074, 1024):
        x = math.ldexp(1.0, e)
        seen.add(x)
        seen.add(-x)
    for k in range(-3, 4):
        seen.add(float(2 ** 53 + k))
    for x in (0.0, -0.0, 0.1, 0.2, 0.3, 1 / 3, 2 / 3, 1e22, 1e23, 9007199254740993.0, 5e-324, 2.2250738585072014e-308,
              1.7976931348623157e308, 4.35, 37.386013, -122.082932, 1000000.0000001):
        seen.add(x)
    out = sorted(seen, key=lambda v: (abs(v), math.copysign(1, v)))
    if not any(v == 0 and math.copysign(1, v) < 0 for v in out):
        out.append(-0.0)
    return out


def int_grid():
    out = set(range(-300, 301))
    for p in (7, 8, 15, 16, 31, 32, 63, 64, 127, 128):
        for d in (-2, -1, 0, 1, 2):
            out.add(2 ** p + d)
            out.add(-(2 ** p) + d)
    for p in (9, 10, 18, 19, 20, 38, 100):
        out.add(10 ** p)
        out.add(-(10 ** p))
        out.add(10 ** p - 1)
    return sorted(out)


def run_case(case):
    kind = case[0]
    c = Chunk(case)
    if kind == "elem":
        return run_elem(case)
    if kind == "year":
        _, y, full = case
        d = date(y, 1, 1)
        one = timedelta(days=1)
        while d.year == y:
            if full or d.day == 1 or d.day >= 28:
                el_date(c, d)
                for tm in (TIMES6 if full or (d.month, d.day) in ((1, 1), (12, 31)) else ()):
                    dt = datetime(d.year, d.month, d.day, tm.hour, tm.minute, tm.second)
                    el_datetime(c, dt, False)
                    el_datetime(c, dt, True)
            if d == date.max:
                break
            d += one
    elif kind == "hour":
        _, h, ndates = case
        for m in range(60):
            for s in range(60):
                tm = time(h, m, s)
                el_time(c, tm)
                for d in BOUNDARY_DATES[:ndates]:
                    dt = datetime(d.year, d.month, d.day, h, m, s)
                    el_datetime(c, dt, False)
                    el_datetime(c, dt, True)
    elif kind == "offset":
        _, sign, h = case
        for ms in range(3600):
            secs = sign * (h * 3600 + ms)
            if secs == 0 and sign < 0:
                continue
            el_offset(c, secs)
    elif kind == "durhour":
        _, sign, hidx = case
        for ms in range(3600):
            secs = hidx * 3600 + ms
            if secs == 0 and sign < 0:
                continue
            el_duration(c, timedelta(seconds=sign * secs))
    elif kind == "dur-structured":
        menu_d = (0, 1, 6, 7, 8, 13, 14, 365, 999999998)
        menu_h = (0, 1, 23)
        menu_m = (0, 1, 59)
        menu_s = (0, 1, 59)
        for sign in (1, -1):
            for d, h, m, s in itertools.product(menu_d, menu_h, menu_m, menu_s):
                el_duration(c, sign * timedelta(days=d, hours=h, minutes=m, seconds=s))
            for k in range(0, 10):
                for base in (10 ** k, 10 ** k - 1, 10 ** k + 1, 86400 * 10 ** k):
                    if base // 86400 <= 999999999:
                        el_duration(c, sign * timedelta(seconds=base))
    elif kind == "dur-grammar":
        _, sign = case
        for text in V.durations_grammar():
            el_duration_text(c, sign + text)
        # 1*DIGIT has no upper length: leading zeros and ten-digit components, wherever the VALUE still is a timedelta
        for text in V.durations_grammar(vals=("0000000015", "1000000000", "007")):
            try:
                V.dec_duration(text)
            except OverflowError:
                continue
            el_duration_text(c, sign + text)
    elif kind == "period":
        _, i = case
        grid = period_grid()
        start = grid[i]
        for end in grid[i:]:
            for utc in (False, True):
                el_period(c, start, end, utc, False)
                el_period(c, start, end, utc, True)
    elif kind == "period-texts":
        starts = (("19970101T180000", datetime(1997, 1, 1, 18, 0, 0)), ("20240229T000000", datetime(2024, 2, 29)))
        for st, sv in starts:
            for sign in ("", "+", "-"):
                for dtext in ("PT5H30M", "P1D", "P2W", "P1DT1H", "PT0S", "P15DT5H0M20S"):
                    if sign == "-":
                        continue  # a negative duration would put the end before the start: not a period
                    el_period_text(c, f"{st}/{sign}{dtext}", (sv, V.dec_duration(dtext)))
            for et, ev in (("19970102T070000", datetime(1997, 1, 2, 7)), ("20240301T000000", datetime(2024, 3, 1))):
                if ev > sv:
                    el_period_text(c, f"{st}/{et}", (sv, ev))
        # decoding is a matter of the two halves: the end of the period (start + duration) need not be representable
        el_period_text(c, "99991231T000000/P1D", (datetime(9999, 12, 31), timedelta(days=1)))
        el_period_text(c, "99990101T120000/P53W", (datetime(9999, 1, 1, 12), timedelta(weeks=53)))
        el_period_text(c, "20240229T083000/P3000000D", (datetime(2024, 2, 29, 8, 30), timedelta(days=3000000)))
        el_period_text(c, "00010101T000000/PT1S", (datetime(1, 1, 1), timedelta(seconds=1)))
    elif kind == "ints":
        for i in int_grid():
            el_int(c, i)
    elif kind == "floats":
        _, lo, hi = case
        for x in float_grid()[lo:hi]:
            el_float(c, x)
    elif kind == "float-texts":
        for sign in ("", "+", "-"):
            for ip in ("0", "1", "10", "007", "123456789012345678901234567890", "9" * 40):
                el_float_text(c, sign + ip)
                for fp in ("0", "5", "000001", "25", "333333333333333333333", "1" * 30):
                    el_float_text(c, f"{sign}{ip}.{fp}")
    elif kind == "geo":
        g = [x for x in float_grid() if abs(x) < 1e3 or abs(x) > 1e15][::97] + [0.0, -0.0, 37.386013, -122.082932, 1e-7, 1e16, 90.0, -180.0]
        for lat in g:
            for lon in g[::3]:
                el_geo(c, lat, lon)
    elif kind == "binary":
        for n in range(0, 5):
            for tup in itertools.product(PAYLOAD, repeat=n):
                el_binary(c, "".join(tup))
    elif kind == "weekday":
        for wd in ("SU", "MO", "TU", "WE", "TH", "FR", "SA"):
            for cased in (wd, wd.lower(), wd.capitalize()):
                el_weekday(c, cased)
                for sign in ("", "+", "-"):
                    for num in list(range(1, 54)) + ["01", "09"]:
                        el_weekday(c, f"{sign}{num}{cased}")
    elif kind == "freq":
        for f in ("SECONDLY", "MINUTELY", "HOURLY", "DAILY", "WEEKLY", "MONTHLY", "YEARLY"):
            for cased in (f, f.lower(), f.capitalize()):
                el_freq(c, cased)
    elif kind == "month":
        for num in range(1, 14):
            for leap in (False, True):
                el_month(c, num, leap)
    elif kind == "uri":
        for s in URIS:
            el_uri(c, vUri, s)
            el_uri(c, vCalAddress, s)
    elif kind == "bool":
        el_bool(c, True)
        el_bool(c, False)
    else:
        raise AssertionError(case)
    return c.result()


def period_grid():
    pts = []
    for d in (date(1, 1, 1), date(1969, 12, 31), date(1970, 1, 1), date(2024, 2, 29), date(2024, 3, 31), date(9999, 12, 31)):
        for tm in (time(0, 0, 0), time(0, 0, 1), time(2, 30, 0), time(12, 0, 0), time(23, 59, 59)):
            pts.append(datetime(d.year, d.month, d.day, tm.hour, tm.minute, tm.second))
    return sorted(pts)


def run_elem(case):
    c = Chunk(case)
    k = case[1]
    a = case[2:]
    if k == "date":
        el_date(c, date(*a))
    elif k == "datetime":
        el_datetime(c, datetime(*a[:6]), a[6])
    elif k == "time":
        el_time(c, time(*a))
    elif k == "duration":
        el_duration(c, timedelta(days=a[0], seconds=a[1]))
    elif k == "duration-text":
        el_duration_text(c, a[0])
    elif k == "offset":
        el_offset(c, a[0])
    elif k == "period":
        el_period(c, datetime.fromisoformat(a[0]), datetime.fromisoformat(a[1]), a[2], a[3])
    elif k == "period-text":
        st, rest = a[0].split("/")
        sv = V.dec_datetime(st)[0]
        want = (sv, V.dec_duration(rest.lstrip("+")) if "P" in rest else V.dec_datetime(rest)[0])
        el_period_text(c, a[0], want)
    elif k == "int":
        el_int(c, int(a[0]))
    elif k == "float":
        el_float(c, float.fromhex(a[0]))
    elif k == "float-text":
        el_float_text(c, a[0])
    elif k == "geo":
        el_geo(c, float.fromhex(a[0]), float.fromhex(a[1]))
    elif k == "binary":
        el_binary(c, a[0])
    elif k == "weekday":
        el_weekday(c, a[0])
    elif k == "freq":
        el_freq(c, a[0])
    elif k == "month":
        el_month(c, a[0], a[1])
    elif k == "uri":
        el_uri(c, {"vUri": vUri, "vCalAddress": vCalAddress}[a[0]], a[1])
    elif k == "bool":
        el_bool(c, a[0])
    return c.result()


replay = run_case


def run(ctx):
    full_lo, full_hi = (1900, 2100) if ctx.quick else (1, 9999)
    dur_hours = 72 if ctx.quick else 960
    ndates = 8 if ctx.quick else 40
    nfl = len(float_grid())
    ctx.rule = ("E-dom sweeps executed on the real codec classes: every date of years "
                f"{full_lo}..{full_hi} (other years: day 1 and 28-31 of every month as DATE, 1 Jan and 31 Dec also as DATE-TIME), each with 6 times of day as naive and "
                f"UTC DATE-TIME; every second of the day as TIME and on {ndates} boundary dates as DATE-TIME; every whole-second "
                f"UTC offset |o|<24h; every whole-second duration |d|<{dur_hours}h plus a structured carry/zero-component grid "
                "up to 1e9 days; the RFC duration grammar over component values {0,1,10,99} with all signs; a 30x30 period grid "
                f"(explicit and by-duration, naive and UTC); integer and float grids ({nfl} floats: m*10^e, all powers of two, "
                "neighbours of 2^53, +-0); binary payloads over 6 symbols up to length 4; all weekday/frequency/month texts. "
                "non-trivial = every element (each is a distinct domain value whose encoding is checked to denote it).")
    ctx.bounds = {"date_years_full": [full_lo, full_hi], "duration_hours": dur_hours, "boundary_dates": ndates,
                  "floats": nfl, "ints": len(int_grid())}
    ctx.assumptions += ["'all finite floats' is not enumerable: a structured grid is swept instead (stated, not claimed)",
                        "excluded: lower-case t/z/p designators, second=60, year 0000, -0000 offsets, zone of TIME values",
                        "states are counted as distinct encoded texts; distinctness follows from the verified round trip"]
    ctx.limit = 120.0

    def gen():
        for y in range(1, 10000):
            yield ("year", y, full_lo <= y <= full_hi)
        for h in range(24):
            yield ("hour", h, ndates)
            for sign in (1, -1):
                yield ("offset", sign, h)
        for hidx in range(dur_hours):
            for sign in (1, -1):
                yield ("durhour", sign, hidx)
        yield ("dur-structured",)
        for sign in ("", "+", "-"):
            yield ("dur-grammar", sign)
        for i in range(len(period_grid())):
            yield ("period", i)
        yield ("ints",)
        for lo in range(0, nfl, 500):
            yield ("floats", lo, lo + 500)
        for k in ("float-texts", "geo", "binary", "weekday", "freq", "month", "uri", "bool", "period-texts"):
            yield (k,)

    ctx.explore("value-domains", gen, run_case)
