"""C09 - the parse result is invariant under line endings, BOM, str/bytes, fold placement, trailing blank lines, name case.

E-dev: deviations from well-formed seeds.  Base corpus = 14 reference-written calendars, one per name-sensitive parse path.
Rewrites: R1 LF for CRLF; R2 UTF-8 byte-order mark; R3 str instead of bytes; R4 trailing blank lines; R5 fold placement
(a single fold at EVERY inter-character position of every line, with SP and with TAB; a fold after every character; every
j-th character, j = 2, 3, 74); R6 letter case (lower / Title / aLtErNaTe) applied independently to the BEGIN/END keywords,
component names, property names and parameter names.  Explored: every single rewrite, then every subset of {R1,R2,R3,R4} x
every R6 combination (4^4) x {no refold, fold after every character}, under both providers.
Oracle (differential): snapshot(parse(variant)) == snapshot(parse(base)) - which includes zone key and UTC offset of every
date-time - and equal re-serialisation.
"""
import itertools

from mc import env
from mc.refmodel import tree as T
from mc.snapshot import snapshot

from icalendar.cal import Calendar, Component

CUSTOM_TZ = ["BEGIN:VTIMEZONE", "TZID:Custom/C09", "BEGIN:STANDARD", "DTSTART:19701025T030000", "TZOFFSETFROM:+0200",
             "TZOFFSETTO:+0100", "TZNAME:CST", "RRULE:FREQ=YEARLY;BYMONTH=10;BYDAY=-1SU", "END:STANDARD", "BEGIN:DAYLIGHT",
             "DTSTART:19700329T020000", "TZOFFSETFROM:+0100", "TZOFFSETTO:+0200", "TZNAME:CDT",
             "RRULE:FREQ=YEARLY;BYMONTH=3;BYDAY=-1SU", "END:DAYLIGHT", "END:VTIMEZONE"]


def cal(*body):
    return ["BEGIN:VCALENDAR", "VERSION:2.0", "PRODID:-//verif//c09//EN"] + [x for b in body for x in b] + ["END:VCALENDAR"]


BASES = {
    "event-tzid": cal(["BEGIN:VEVENT", "UID:1", "DTSTART;TZID=Europe/Berlin:20240331T033000", "DTEND;TZID=America/New_York:20241103T013000", "SUMMARY:Zoned", "END:VEVENT"]),
    "todo-due-recurid": cal(["BEGIN:VTODO", "UID:2", "DUE;TZID=Europe/Berlin:20240601T100000", "RECURRENCE-ID;TZID=Europe/Berlin:20240601T080000", "DTSTART;VALUE=DATE:20240601", "END:VTODO"]),
    "rdate-exdate": cal(["BEGIN:VEVENT", "UID:3", "DTSTART:20240101T090000Z", "RDATE;TZID=Europe/Berlin:20240302T100000,20240303T100000", "EXDATE;TZID=Asia/Tokyo:20240302T100000", "RDATE;VALUE=DATE:20240401,20240402", "END:VEVENT"]),
    "freebusy": cal(["BEGIN:VFREEBUSY", "UID:4", "DTSTAMP:20240101T000000Z", "FREEBUSY;FBTYPE=BUSY:20240301T080000Z/PT1H,20240302T080000Z/20240302T093000Z", "FREEBUSY;TZID=Europe/Berlin:20240303T080000/PT2H", "END:VFREEBUSY"]),
    "custom-vtimezone": cal(CUSTOM_TZ, ["BEGIN:VEVENT", "UID:5", "DTSTART;TZID=Custom/C09:20240701T120000", "DTEND;TZID=Custom/C09:20241201T120000", "END:VEVENT"]),
    # the definition stands AFTER the properties that use it / between two users (RFC 5545 fixes no order): whatever the
    # reader makes of the forward reference (C12 judges that), it makes the same of it under every insignificant rewrite
    "custom-vtimezone-after": cal(["BEGIN:VEVENT", "UID:5a", "DTSTART;TZID=Custom/C09:20240701T120000", "RDATE;TZID=Custom/C09:20240702T120000", "END:VEVENT"], CUSTOM_TZ),
    "custom-vtimezone-between": cal(["BEGIN:VTODO", "UID:5b", "DUE;TZID=Custom/C09:20240701T120000", "END:VTODO"], CUSTOM_TZ,
                                    ["BEGIN:VEVENT", "UID:5c", "DTSTART;TZID=Custom/C09:20241201T120000", "END:VEVENT"]),
    # X- properties an application may have registered a value type for (mc/custom.py does, in the second configuration):
    # typed or not, the name's letter case changes nothing
    "registrable-x-properties": cal(["BEGIN:VEVENT", "UID:17", "X-SEATS:007", "X-PUBLISHED:20240309T123000Z", "X-SEATS;X-P=1:12", "END:VEVENT"],
                                    ["BEGIN:X-COMP", "X-SEATS:3", "BEGIN:X-BOX", "X-PUBLISHED:20240310T000000Z", "END:X-BOX", "END:X-COMP"]),
    "categories": cal(["BEGIN:VEVENT", "UID:6", "CATEGORIES:Work,Private Life,Xyz", "RESOURCES:Beamer,Room", "CATEGORIES;LANGUAGE=de:Arbeit", "END:VEVENT"]),
    "alarms": cal(["BEGIN:VEVENT", "UID:7", "DTSTART;TZID=Europe/Berlin:20240601T100000", "BEGIN:VALARM", "ACTION:DISPLAY", "TRIGGER;RELATED=END:-PT15M", "REPEAT:2", "DURATION:PT5M", "END:VALARM", "BEGIN:VALARM", "ACTION:AUDIO", "TRIGGER;VALUE=DATE-TIME:20240601T070000Z", "END:VALARM", "END:VEVENT"]),
    "unknown-components": cal(["BEGIN:X-OUTER", "X-A:1", "BEGIN:FOO", "X-B;X-P=q:2", "DTSTART;TZID=Europe/Berlin:20240601T100000", "END:FOO", "END:X-OUTER"]),
    "non-ascii-long": cal(["BEGIN:VEVENT", "UID:9", "SUMMARY:" + "Grüße aus Köln € 😀 " * 8, "DESCRIPTION:" + "a" * 160, "LOCATION;ALTREP=\"http://example.com/" + "x" * 70 + "\":Straße 1\\, Köln", "END:VEVENT"]),
    "parameters": cal(["BEGIN:VEVENT", "UID:10", "ATTENDEE;CN=\"Doe, John\";ROLE=REQ-PARTICIPANT;MEMBER=\"mailto:a@x\",\"mailto:b@x\":mailto:john@example.com", "ORGANIZER;CN=Max;SENT-BY=\"mailto:s@x\":mailto:max@example.com", "END:VEVENT"]),
    "repeated": cal(["BEGIN:VEVENT", "UID:11", "ATTENDEE:mailto:a@x", "ATTENDEE:mailto:b@x", "ATTENDEE:mailto:c@x", "COMMENT:one", "COMMENT:two", "END:VEVENT"]),
    "typed": cal(["BEGIN:VEVENT", "UID:12", "RRULE:FREQ=WEEKLY;UNTIL=20241231T000000Z;BYDAY=MO,WE", "GEO:37.386013;-122.082932", "PRIORITY:5", "SEQUENCE:3", "DURATION:P1DT2H", "DTSTART;VALUE=DATE:20240601", "END:VEVENT"]),
    "two-events": cal(["BEGIN:VEVENT", "UID:13a", "DTSTART;TZID=Europe/Berlin:20240601T100000", "X-PROP;X-PAR=1:v", "END:VEVENT"], ["BEGIN:VEVENT", "UID:13b", "DTSTART;TZID=Asia/Tokyo:20240601T100000", "END:VEVENT"]),
    # parameter VALUES are not rewritten (only names are): enumerated parameters with values in lower / mixed case must
    # come out the same whatever the case of their NAME
    "enumerated-param-values": cal(["BEGIN:VEVENT", "UID:15", "DTSTART;VALUE=date:20240102",
                                    "ATTENDEE;PARTSTAT=Accepted;ROLE=req-participant;RSVP=true;CUTYPE=individual:mailto:a@x",
                                    "RDATE;VALUE=period:20240301T100000Z/PT1H", "ATTACH;FMTTYPE=text/Plain:http://x/y",
                                    "BEGIN:VALARM", "ACTION:DISPLAY", "TRIGGER;RELATED=end:-PT5M", "END:VALARM", "END:VEVENT"],
                                   ["BEGIN:VFREEBUSY", "UID:15b", "FREEBUSY;FBTYPE=busy-Tentative:20240301T080000Z/PT1H", "END:VFREEBUSY"]),
    # characters Python's text layer treats as line boundaries or strips (str.splitlines separators, BOM, NBSP) are
    # ordinary value characters in RFC 5545
    "special-characters": cal(["BEGIN:VEVENT", "UID:16", "SUMMARY:a\u2028b\u0085c\x0bd\x1ce\ufefff\u00a0", "LOCATION;X-P=p\u2028q:\ufeffstart",
                               "DESCRIPTION:lone\rCR and tab\there \u2029 end\u00a0",
                               # text that is not in Unicode NFC stays as written (bytes and str input alike)
                               "COMMENT;X-N=Ame\u0301lie:Cafe\u0301 \u212b \u2126 \uf900", 
                               # values the reader rewrites (literal %2C %3A %3B %5C): the same rewriting whatever the case of the NAME
                               "URL:https://example.com/search?q=is%3Aopen&labels=bug%2Cparser", "X-PCT:a%3Bb%5Cc", "END:VEVENT"]),
    "journal-escapes": cal(["BEGIN:VJOURNAL", "UID:14", "DTSTAMP:20240101T000000Z", "DESCRIPTION:line one\\nline two\\; semi\\, comma", "SUMMARY:plain", "END:VJOURNAL"]),
}
CASINGS = ("none", "lower", "title", "alt")
TARGETS = ("keyword", "compname", "propname", "paramname")


def recase(s, how):
    if how == "none":
        return s
    if how == "lower":
        return s.lower()
    if how == "title":
        return s.title()
    return "".join(c.lower() if i % 2 == 0 else c.upper() for i, c in enumerate(s))


def recase_line(line, casing):
    """casing: dict target -> how.  Only names are touched: BEGIN/END keywords, the component name in BEGIN/END lines,
    property names, parameter names; values and parameter values stay."""
    # split name[;params]:value with quote awareness
    i = 0
    n = len(line)
    inq = False
    while i < n and (inq or line[i] != ":"):
        if line[i] == '"':
            inq = not inq
        i += 1
    head, value = line[:i], line[i + 1:]
    segs, cur, inq = [], [], False
    for ch in head:
        if ch == '"':
            inq = not inq
        if ch == ";" and not inq:
            segs.append("".join(cur))
            cur = []
        else:
            cur.append(ch)
    segs.append("".join(cur))
    name = segs[0]
    if name.upper() in ("BEGIN", "END"):
        return recase(name, casing["keyword"]) + ":" + recase(value, casing["compname"])
    out = [recase(name, casing["propname"])]
    for p in segs[1:]:
        k, _, v = p.partition("=")
        out.append(recase(k, casing["paramname"]) + "=" + v)
    return ";".join(out) + ":" + value


def render(lines, eol="\r\n", trailing=0):
    return eol.join(lines) + eol + eol * trailing


_BASE = {}


def base_obs(provider, bname):
    key = (provider, bname)
    if key not in _BASE:
        env.use_provider(provider)
        c = Calendar.from_ical(render(BASES[bname]).encode("utf-8"))
        _BASE[key] = (snapshot(c), c.to_ical())
    return _BASE[key]


def fail(cls, case, expected, observed):
    return {"cls": cls, "case": case, "expected": expected, "observed": observed, "size": len(repr(case)),
            "unit_test": ("import sys; sys.path[:0] = ['/verif', '/repo/src']\nfrom mc.checks import c09\n"
                          f"r = c09.replay({case!r})\nfor f in r['fails']: print(f['cls'], f['expected'], f['observed'])\n")}


def diff_hint(a, b):
    """First differing property between two snapshots (for the report)."""
    if a == b:
        return None
    if a[0] != b[0]:
        return ("name", a[0], b[0])
    pa, pb = dict(a[1]), dict(b[1])
    for k in sorted(set(pa) | set(pb)):
        if pa.get(k) != pb.get(k):
            return (a[0], k, pa.get(k), pb.get(k))
    for x, y in zip(a[2], b[2]):
        h = diff_hint(x, y)
        if h:
            return h
    return ("children", len(a[2]), len(b[2]))


def build_variant(case):
    kind = case[0]
    bname = case[2]
    lines = list(BASES[bname])
    eol, bom, as_str, trailing = "\r\n", False, False, 0
    if kind == "fold1":
        _, _, _, li, pos, ws = case
        lines[li] = lines[li][:pos] + "\r\n" + ws + lines[li][pos:]
    elif kind == "foldj":
        _, _, _, j, ws = case
        lines = [("\r\n" + ws).join(ln[i:i + j] for i in range(0, len(ln), j)) for ln in lines]
    elif kind == "combo":
        _, _, _, r1, r2, r3, r4, cas, refold = case
        casing = dict(zip(TARGETS, cas))
        lines = [recase_line(ln, casing) for ln in lines]
        if r1:
            eol = "\n"
        bom, as_str, trailing = r2, r3, (0, 1, 3)[r4]
        if refold:
            # a fold after every character - except, with bare-LF line ends, directly after a CR: "CR LF SP" IS a CRLF fold,
            # so that placement would not denote the same content (the rewrite is only insignificant where it is unambiguous)
            def fold_all(ln):
                out = []
                for i, ch in enumerate(ln):
                    out.append(ch)
                    if i + 1 < len(ln) and not (eol == "\n" and ch == "\r"):
                        out.append(eol + " ")
                return "".join(out)
            lines = [fold_all(ln) for ln in lines]
    if kind == "eolmix":
        # the LF-for-CRLF rewrite applied to SOME line breaks only (every break is CRLF or LF on its own)
        _, _, _, pattern, idx, as_str, foldeol, trailing = case
        n = len(lines)
        lf = {"one-lf": lambda i: i == idx, "one-crlf": lambda i: i != idx, "alt": lambda i: i % 2 == idx % 2,
              "upto-lf": lambda i: i <= idx, "from-lf": lambda i: i >= idx}[pattern]
        if foldeol:
            def fold3(ln):
                pos = 3
                while pos < len(ln) and foldeol == "\n" and ln[pos - 1] == "\r":
                    pos += 1
                return ln if pos >= len(ln) else ln[:pos] + foldeol + " " + ln[pos:]
            lines = [fold3(ln) for ln in lines]
        text = "".join(ln + ("\n" if lf(i) else "\r\n") for i, ln in enumerate(lines))
        text += ("", "\n", "\r\n\n")[trailing]
        return text if as_str else text.encode("utf-8")
    text = render(lines, eol, trailing)
    if as_str:
        return text  # R2 o R3 = the decoded text without the byte-order mark
    data = text.encode("utf-8")
    if bom:
        data = b"\xef\xbb\xbf" + data
    return data


# ---------------------------------------------------------------- large inputs: one fold around every power-of-two offset
_BIG = {}
BIG_BOUNDARIES = (4096, 8192, 16384, 32768, 65536, 131072)


def big_lines():
    lines = ["BEGIN:VCALENDAR", "VERSION:2.0", "PRODID:-//verif//c09-big//EN"]
    i = 0
    while sum(len(x) + 2 for x in lines) < 135000:
        i += 1
        lines += ["BEGIN:VEVENT", f"UID:event-{i:04d}@example.com", f"DTSTART;TZID=Europe/Berlin:2024{1 + i % 12:02d}{1 + i % 28:02d}T100000",
                  f"SUMMARY:Meeting number {i}\\, room {i % 7}; bring notes", f"X-SEQ;X-P={i % 5}:{'v' * (i % 40)}", "END:VEVENT"]
    return lines + ["END:VCALENDAR"]


def run_big(case):
    """('bigfold', provider, boundary, delta, eol, ws, as_str): a text of ~135 KB without folds, then ONE fold whose line break
    ends at offset boundary+delta: the same tree as the text without it (a reader that works in blocks must not care)."""
    _, provider, boundary, delta, eol, ws, as_str = case
    env.use_provider(provider)
    if provider not in _BIG:
        lines = big_lines()
        c0 = Calendar.from_ical("\r\n".join(lines) + "\r\n")
        _BIG[provider] = (lines, snapshot(c0), c0.to_ical())
        env.use_provider(provider)
    lines, want_snap, want_ical = _BIG[provider]
    text = eol.join(lines) + eol
    pos = boundary + delta - len(eol)
    fails = []
    if pos <= 0 or pos >= len(text) - 1 or text[pos - 1] in "\r\n" or text[pos] in "\r\n":
        return {"state": ("big-skip",), "trans": 0, "traces": 0, "nontrivial": False, "outcome": "big:not-between-two-characters", "fails": []}
    variant = text[:pos] + eol + ws + text[pos:]
    data = variant if as_str else variant.encode("utf-8")
    try:
        c = Calendar.from_ical(data)
        got = snapshot(c)
        out = c.to_ical()
    except Exception as e:  # noqa: BLE001
        fails.append(fail("bigfold:variant-rejected", case, "same tree as the unfolded text", f"{type(e).__name__}: {str(e)[:100]}"))
        return {"state": ("big-rejected",), "trans": 1, "nontrivial": True, "outcome": "rejected", "fails": fails}
    if got != want_snap:
        fails.append(fail("bigfold:tree-differs", case, "same tree as the unfolded text", diff_hint(want_snap, got)))
    elif out != want_ical:
        fails.append(fail("bigfold:reserialisation-differs", case, len(want_ical), len(out)))
    return {"state": ("big", provider, "same" if not fails else repr(diff_hint(want_snap, got))[:80]), "trans": 2, "nontrivial": True,
            "outcome": "same" if not fails else "FAIL", "fails": fails}


LONG_LINE = ["BEGIN:VCALENDAR", "VERSION:2.0", "BEGIN:VEVENT", "UID:long",
             "DESCRIPTION:" + "".join(f"item {i} of the agenda\\, room {i % 9}\\; " for i in range(150)) + "Gr\u00fc\u00dfe",
             "ATTACH;ENCODING=BASE64;VALUE=BINARY:" + "QUJD" * 1200, "END:VEVENT", "END:VCALENDAR"]


def run_manyfolds(case):
    """('manyfolds', provider, j, eol, ws, as_str): ONE content line of ~4000 characters folded after every j characters
    (up to 4800 physical lines for one logical line): the same tree as the unfolded text."""
    _, provider, j, eol, ws, as_str = case
    env.use_provider(provider)
    key = ("long", provider)
    if key not in _BIG:
        c0 = Calendar.from_ical("\r\n".join(LONG_LINE) + "\r\n")
        _BIG[key] = (snapshot(c0), c0.to_ical())
        env.use_provider(provider)
    want_snap, want_ical = _BIG[key]
    lines = [(eol + ws).join(ln[i:i + j] for i in range(0, len(ln), j)) for ln in LONG_LINE]
    text = eol.join(lines) + eol
    fails = []
    try:
        c = Calendar.from_ical(text if as_str else text.encode("utf-8"))
        got, out = snapshot(c), c.to_ical()
    except Exception as e:  # noqa: BLE001
        fails.append(fail("manyfolds:variant-rejected", case, "same tree as the unfolded text", f"{type(e).__name__}: {str(e)[:100]}"))
        return {"state": ("manyfolds-rejected",), "trans": 1, "nontrivial": True, "outcome": "rejected", "fails": fails}
    if got != want_snap:
        fails.append(fail("manyfolds:tree-differs", case, "same tree as the unfolded text", diff_hint(want_snap, got)))
    elif out != want_ical:
        fails.append(fail("manyfolds:reserialisation-differs", case, len(want_ical), len(out)))
    return {"state": ("manyfolds", provider, not fails), "trans": 2, "nontrivial": True, "outcome": "same" if not fails else "FAIL", "fails": fails}


def run_case(case):
    if case[0] == "manyfolds":
        return run_manyfolds(case)
    if case[0] == "bigfold":
        return run_big(case)
    provider, bname = case[1], case[2]
    want_snap, want_ical = base_obs(provider, bname)
    env.use_provider(provider)
    fails = []
    variant = build_variant(case)
    try:
        c = Calendar.from_ical(variant)
        got = snapshot(c)
        out = c.to_ical()
    except Exception as e:  # noqa: BLE001
        fails.append(fail(f"{case[0]}:variant-rejected", case, "same tree as the base text", f"{type(e).__name__}: {str(e)[:100]}"))
        return {"state": ("rejected", case[0]), "trans": 1, "nontrivial": True, "outcome": "rejected", "fails": fails}
    if got != want_snap:
        fails.append(fail(f"{case[0]}:tree-differs", case, "same tree as the base text", diff_hint(want_snap, got)))
    elif out != want_ical:
        fails.append(fail(f"{case[0]}:reserialisation-differs", case, want_ical[:200], out[:200]))
    return {"state": (provider, bname, got if fails else "same-as-base"), "trans": 2, "nontrivial": True,
            "outcome": "same" if not fails else "FAIL", "fails": fails}


replay = run_case


def run(ctx):
    bases = list(BASES) if not ctx.quick else list(BASES)
    ctx.rule = ("E-dev from 14 reference-written calendars: (R5) one fold at every inter-character position of every line with "
                "SP and TAB, folds every j characters (j=1,2,3,74) with SP and TAB; then every subset of {LF, BOM, str, trailing "
                "blank lines (0/1/3)} x every combination of 4 casings on 4 kinds of names (256) x {as is, fold after every "
                "character}; plus (R1 partially) every line break CRLF or LF on its own: exactly one LF, exactly one CRLF, alternating, LF up to / from "
                "every line index x {no fold, a CRLF fold, an LF fold in every line} x str/bytes x trailing blank lines; a 135 KB text with ONE fold whose line break ends at offset 2^k + d (k = 12..17, d = -6..6) x CRLF/LF x SP/TAB x str/bytes; all under both providers" + (" (quick: case combinations restricted to those where at most two kinds of "
                "names are re-cased; thorough: all 256)" if ctx.quick else "") + ". non-trivial = every variant differs from its base text.")
    ctx.bounds = {"bases": len(BASES), "casings": CASINGS, "targets": TARGETS}
    ctx.assumptions += ["a str input starting with U+FEFF is excluded (the byte-order mark is a property of byte input)",
                        "folds are placed between characters only (never inside a multi-octet character or inside CRLF)",
                        "values and parameter values are never re-cased"]

    def gen_folds():
        for provider in env.PROVIDERS:
            for b in bases:
                lines = BASES[b]
                for li, ln in enumerate(lines):
                    for pos in range(1, len(ln)):
                        for ws in (" ", "\t"):
                            yield ("fold1", provider, b, li, pos, ws)
                for j in (1, 2, 3, 74):
                    for ws in (" ", "\t"):
                        yield ("foldj", provider, b, j, ws)

    def gen_combo():
        for provider in env.PROVIDERS:
            for b in bases:
                for cas in itertools.product(CASINGS, repeat=4):
                    if ctx.quick and sum(1 for c in cas if c != "none") > 2:
                        continue
                    for r1, r2, r3 in itertools.product((False, True), repeat=3):
                        if r2 and r3:
                            continue  # BOM + str == str (excluded: a str that starts with U+FEFF)
                        for r4 in (0, 1, 2):
                            for refold in (False, True):
                                if ctx.quick and r4 == 1 and refold:
                                    continue
                                yield ("combo", provider, b, r1, r2, r3, r4, cas, refold)

    def gen_eolmix():
        for provider in env.PROVIDERS:
            for b in bases:
                n = len(BASES[b])
                for pattern in ("one-lf", "one-crlf", "alt", "upto-lf", "from-lf"):
                    for idx in (range(2) if pattern == "alt" else range(n)):
                        for as_str in (False, True):
                            for foldeol in ("", "\r\n", "\n"):
                                for trailing in (0, 1, 2):
                                    if ctx.quick and trailing and foldeol:
                                        continue
                                    yield ("eolmix", provider, b, pattern, idx, as_str, foldeol, trailing)

    def gen_big():
        for provider in env.PROVIDERS:
            if ctx.quick and provider == "pytz":
                continue
            for boundary in BIG_BOUNDARIES:
                for delta in range(-6, 7):
                    for eol in ("\r\n", "\n"):
                        for ws in (" ", "\t"):
                            for as_str in (False, True):
                                if ctx.quick and (ws == "\t") != as_str:
                                    continue
                                yield ("bigfold", provider, boundary, delta, eol, ws, as_str)

    def gen_many():
        for provider in env.PROVIDERS:
            for j in (1, 2, 3, 4, 5, 7, 10, 20, 74):
                for eol in ("\r\n", "\n"):
                    for ws in (" ", "\t"):
                        for as_str in (False, True):
                            yield ("manyfolds", provider, j, eol, ws, as_str)

    ctx.explore("fold-placement", gen_folds, run_case)
    ctx.explore("one-fold-around-block-boundaries-of-a-large-text", gen_big, run_case, limit=60.0)
    ctx.explore("one-line-folded-thousands-of-times", gen_many, run_case, limit=60.0)
    ctx.explore("line-break-mixtures", gen_eolmix, run_case)
    ctx.explore("rewrite-compositions", gen_combo, run_case)
