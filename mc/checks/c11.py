"""C11 - zoned date-times keep wall time, zone id and offset; UTC properties keep the instant.

E-dom: every zone id of the active provider x wall times derived from the zone's own transitions (read independently:
TZif files for zoneinfo, the provider's transition table for pytz): each transition instant -1s / 0 / +1s expressed in
BOTH the old and the new offset (gap edges, fold edges, inside gap, inside fold), interval mid-points and 8 fixed times;
x shapes {single DTSTART, RDATE list of two, explicit and by-duration period in FREEBUSY and RDATE, a period spanning the
transition} x tzinfo source {zoneinfo, pytz, dateutil} x provider.  One case = one (provider, source, zone).
Oracle: the emitted line has the same wall-clock fields under TZID=<key> (UTC: Z, no TZID); the parsed value has the same
wall fields, a tzinfo whose key is the id, and the utcoffset the PROVIDER LIBRARY ITSELF assigns to that wall time
(ZoneInfo(...).utcoffset / pytz localize) - never another provider's data.  dateutil sources: wall time only.
UTC properties (DTSTAMP, CREATED, LAST-MODIFIED via add; DTSTAMP, LAST_MODIFIED, ACKNOWLEDGED via descriptors): the same
instant with Z.
"""
import os
from datetime import datetime, timedelta, timezone

from mc import env
from mc.core import HarnessError
from mc.refmodel import rfc_tz as Z
from mc.snapshot import tzkey

from icalendar.cal import Event, Calendar, FreeBusy, Alarm
from icalendar.timezone import tzp

UTC = timezone.utc
FIXED = (datetime(2024, 1, 15, 12, 0), datetime(2024, 7, 15, 12, 0), datetime(1999, 12, 31, 23, 59, 59), datetime(2038, 1, 19, 3, 14, 8),
         datetime(1900, 1, 1, 0, 0), datetime(2099, 12, 31, 23, 59, 59), datetime(1970, 1, 1, 0, 0), datetime(2000, 2, 29, 12, 30, 15))
MAXF = 2


def transitions_for(key, flavour, lo_year, hi_year):
    """[(utc datetime naive, old utoff seconds, new utoff seconds)] from the provider-independent reader (zoneinfo) or the
    provider's own table (pytz)."""
    lo, hi = datetime(lo_year, 1, 1), datetime(hi_year, 1, 1)
    out = []
    if flavour == "pytz":
        import pytz
        tz = pytz.timezone(key)
        times = getattr(tz, "_utc_transition_times", None)
        if not times:
            return []
        info = tz._transition_info
        for i in range(1, len(times)):
            if lo <= times[i] < hi:
                out.append((times[i], int(info[i - 1][0].total_seconds()), int(info[i][0].total_seconds())))
        return out
    bp = Z.zone_breakpoints(key, "zoneinfo", last_year=hi_year)
    if bp is None:
        return []
    prev = bp[0]
    for t, tt in bp[1]:
        try:
            dt = (Z.from_utc_seconds(t)).replace(tzinfo=None)
        except OverflowError:
            prev = tt
            continue
        if lo <= dt < hi:
            out.append((dt, prev[0], tt[0]))
        prev = tt
    return out


def wall_points(key, flavour, quick):
    tr = transitions_for(key, flavour, 1970 if quick else 1900, 2038 if quick else 2100)
    if quick and len(tr) > 6:
        tr = tr[:3] + tr[-3:]
    pts = []
    spans = []
    for i, (t, o1, o2) in enumerate(tr):
        for d in (-1, 0, 1):
            for off in (o1, o2):
                pts.append(t + timedelta(seconds=d + off))
        if i + 1 < len(tr):
            mid = t + (tr[i + 1][0] - t) / 2
            pts.append((mid + timedelta(seconds=o2)).replace(microsecond=0))
        spans.append((t, o1, o2))
    pts += list(FIXED)
    seen, out = set(), []
    for p in pts:
        if p not in seen and 1 < p.year < 9998:
            seen.add(p)
            out.append(p)
    return out, spans


def make_source(source, key):
    """-> function wall(naive) -> aware datetime built with the source library, or None if unavailable."""
    if source == "zoneinfo":
        import zoneinfo
        try:
            tz = zoneinfo.ZoneInfo(key)
        except Exception:  # noqa: BLE001
            return None
        return lambda w: w.replace(tzinfo=tz)
    if source == "pytz":
        import pytz
        try:
            tz = pytz.timezone(key)
        except Exception:  # noqa: BLE001
            return None
        return lambda w: tz.localize(w)
    from dateutil.tz import gettz
    tz = gettz(key)
    if tz is None:
        return None
    return lambda w: w.replace(tzinfo=tz)


def provider_offset(provider, key, w):
    """The offset the provider library itself assigns to wall time w in zone key."""
    if provider == "zoneinfo":
        import zoneinfo
        return w.replace(tzinfo=zoneinfo.ZoneInfo(key)).utcoffset()
    import pytz
    return pytz.timezone(key).localize(w).utcoffset()


def fmt(w):
    return f"{w.year:04d}{w.month:02d}{w.day:02d}T{w.hour:02d}{w.minute:02d}{w.second:02d}"


def prop_line(data, name):
    text = data.decode("utf-8").replace("\r\n ", "")
    return [ln for ln in text.split("\r\n") if ln.split(":", 1)[0].split(";", 1)[0] == name]


class Chunk:
    def __init__(self, case):
        self.case = case
        self.fails = []
        self.seen = {}
        self.n = 0
        self.trans = 0

    def fail(self, cls, elem, expected, observed):
        k = self.seen.get(cls, 0)
        self.seen[cls] = k + 1
        if k < MAXF:
            self.fails.append({"cls": cls, "case": self.case + (elem,), "expected": expected, "observed": observed,
                               "size": len(repr(elem))})


def wall_of(dt):
    return dt.replace(tzinfo=None)


def check_zoned(c, provider, source, key, mk, w, is_utc_key):
    """single DTSTART + RDATE list + periods for wall time w."""
    c.n += 1
    val = mk(w)
    elem = ("wall", fmt(w))
    ev = Event()
    ev.add("dtstart", val)
    ev.add("rdate", [val, mk(w + timedelta(days=1, hours=1))])
    fb = FreeBusy()
    explicit_ok = True
    if source != "dateutil" or True:
        # a period is only a period if its end is after its start under the PARSING provider's reading of the two wall
        # times (an end inside a large gap, e.g. Kwajalein's skipped day, may be read as earlier than the start)
        try:
            if not (is_utc_key) and (provider == "zoneinfo" and zi_knows(key) or provider == "pytz" and pytz_knows(key)):
                w_end = w + timedelta(hours=2)
                if (w_end - provider_offset(provider, key, w_end)) <= (w - provider_offset(provider, key, w)):
                    explicit_ok = None
        except Exception:  # noqa: BLE001
            pass
    if explicit_ok is None:
        explicit_ok = False
        fb.add("freebusy", (val, timedelta(hours=2)))
    else:
      try:
        fb.add("freebusy", (val, mk(w + timedelta(hours=2))))
      except ValueError:
        # a backward offset change larger than 2h: start > end is not a period at all
        explicit_ok = False
        fb.add("freebusy", (val, timedelta(hours=2)))
    fb.add("freebusy", (val, timedelta(hours=1, minutes=30)))
    ev.add("rdate", [(val, timedelta(minutes=45))])
    # the caller's own parameters come on top of the ones the value needs (TZID), they do not replace them
    ev.add("recurrence-id", val, parameters={"RANGE": "THISANDFUTURE"})
    ev.add("exdate", [val, mk(w + timedelta(days=1, hours=1))], parameters={"X-WHY": "moved"})
    # periods of no extent (end == start, zero duration) are periods
    ev0 = Event()
    ev0.add("uid", "zero-extent")
    ev0.add("rdate", [(val, timedelta(0))])
    # lists handed over as one-shot iterables (a generator, a map object): still lists of zoned values
    w3 = w + timedelta(days=1, hours=1)
    ev0.add("exdate", (x for x in (val, mk(w3))))
    ev0.add("x-gen-marker", "1")
    ev1 = Event()
    ev1.add("uid", "map-object")
    ev1.add("exdate", map(lambda x: x, [val, mk(w3), mk(w3 + timedelta(days=1))]))
    fb0 = FreeBusy()
    fb0.add("freebusy", (val, val))
    cal = Calendar()
    cal.add_component(ev)
    cal.add_component(fb)
    cal.add_component(ev0)
    cal.add_component(fb0)
    cal.add_component(ev1)
    c.trans += 2
    try:
        data = cal.to_ical()
        back = Calendar.from_ical(data)
    except Exception as e:  # noqa: BLE001
        return c.fail("roundtrip-raises", elem, "bytes and a tree", f"{type(e).__name__}: {e}")
    w2 = w + timedelta(days=1, hours=1)
    # ---- emitted text
    line = prop_line(data, "DTSTART")[0]
    if source == "dateutil":
        if not line.endswith(":" + fmt(w)) and not line.endswith(":" + fmt(w) + "Z"):
            c.fail("dateutil:wall-time-not-kept-in-text", elem, fmt(w), line)
    elif is_utc_key:
        if line != "DTSTART:" + fmt(w) + "Z":
            c.fail("UTC-not-written-as-Z-without-TZID", elem, "DTSTART:" + fmt(w) + "Z", line)
    else:
        if line != f"DTSTART;TZID={key}:{fmt(w)}":
            c.fail("single:emitted-line", elem, f"DTSTART;TZID={key}:{fmt(w)}", line)
        rl = prop_line(data, "RDATE")
        want_r = f"RDATE;TZID={key}:{fmt(w)},{fmt(w2)}"
        if want_r not in rl:
            c.fail("list:emitted-line", elem, want_r, rl)
        want_p = f"RDATE;TZID={key};VALUE=PERIOD:{fmt(w)}/PT45M"
        if want_p not in rl:
            c.fail("rdate-period:emitted-line", elem, want_p, rl)
        for nm, wl in (("RECURRENCE-ID", f"RECURRENCE-ID;RANGE=THISANDFUTURE;TZID={key}:{fmt(w)}"),
                       ("EXDATE", f"EXDATE;TZID={key};X-WHY=moved:{fmt(w)},{fmt(w2)}")):
            if wl not in prop_line(data, nm):
                c.fail("with-own-parameters:emitted-line", elem, wl, prop_line(data, nm))
        fl = prop_line(data, "FREEBUSY")
        want_f1 = f"FREEBUSY;TZID={key};VALUE=PERIOD:{fmt(w)}/{fmt(w + timedelta(hours=2))}"
        want_f2 = f"FREEBUSY;TZID={key};VALUE=PERIOD:{fmt(w)}/PT1H30M"
        if (explicit_ok and want_f1 not in fl) or want_f2 not in fl:
            c.fail("freebusy-period:emitted-line", elem, [want_f1, want_f2], fl)
    # ---- parsed values
    if source == "dateutil" or (provider == "pytz" and not pytz_knows(key)) or (provider == "zoneinfo" and not zi_knows(key)):
        ev2 = back.walk("VEVENT")[0]
        got = ev2["DTSTART"].dt
        if wall_of(got) != w:
            c.fail("wall-time-not-kept-after-parse", elem, w, got)
        return
    want_off = timedelta(0) if is_utc_key else provider_offset(provider, key, w)
    ev2 = back.walk("VEVENT")[0]
    fb2 = back.walk("VFREEBUSY")[0]

    def chk(label, got, wwall):
        if not isinstance(got, datetime) or wall_of(got) != wwall:
            return c.fail(f"{label}:wall-time-changed", elem, wwall, got)
        k = tzkey(got.tzinfo)
        if is_utc_key:
            if got.utcoffset() != timedelta(0):
                c.fail(f"{label}:utc-offset", elem, "0", got.utcoffset())
            return
        if k != key:
            c.fail(f"{label}:zone-id-changed", elem, key, k)
        woff = provider_offset(provider, key, wwall)
        if got.utcoffset() != woff:
            c.fail(f"{label}:offset-not-the-providers", elem, woff, got.utcoffset())

    chk("single", ev2["DTSTART"].dt, w)
    try:
        z_ev, z_fb = back.walk("VEVENT")[1], back.walk("VFREEBUSY")[1]
        zp = z_ev["RDATE"].dts[0].dt
        chk("zero-duration-period.start", zp[0], w)
        if zp[1] != timedelta(0):
            c.fail("zero-duration-period.duration", elem, "0", zp[1])
        zf = z_fb["FREEBUSY"]
        chk("zero-extent-freebusy.start", zf.start, w)
        chk("zero-extent-freebusy.end", zf.end, w)
    except (KeyError, IndexError, AttributeError, TypeError) as e:
        c.fail("zero-extent-periods:shape", elem, "RDATE period and FREEBUSY of no extent", f"{type(e).__name__}: {e}")
    try:
        g0 = back.walk("VEVENT")[1]["EXDATE"].dts
        g1 = back.walk("VEVENT")[2]["EXDATE"].dts
        if len(g0) != 2 or len(g1) != 3:
            c.fail("one-shot-iterable:arity", elem, (2, 3), (len(g0), len(g1)))
        else:
            chk("generator[0]", g0[0].dt, w)
            chk("generator[1]", g0[1].dt, w2)
            chk("map[0]", g1[0].dt, w)
            chk("map[2]", g1[2].dt, w2 + timedelta(days=1))
    except (KeyError, IndexError, AttributeError, TypeError) as e:
        c.fail("one-shot-iterable:shape", elem, "EXDATE lists", f"{type(e).__name__}: {e}")
    rid, exd = ev2.get("RECURRENCE-ID"), ev2.get("EXDATE")
    if rid is None or exd is None or isinstance(rid, list) or isinstance(exd, list) or len(exd.dts) != 2:
        c.fail("with-own-parameters:shape", elem, "one RECURRENCE-ID, one EXDATE of two", (repr(rid), repr(exd)))
    else:
        chk("recurrence-id+RANGE", rid.dt, w)
        chk("exdate+X-WHY[0]", exd.dts[0].dt, w)
        chk("exdate+X-WHY[1]", exd.dts[1].dt, w2)
        if rid.params.get("RANGE") != "THISANDFUTURE" or exd.params.get("X-WHY") != "moved":
            c.fail("with-own-parameters:own-parameter-lost", elem, "RANGE / X-WHY kept", (dict(rid.params), dict(exd.params)))
    rds = ev2["RDATE"]
    rds = rds if isinstance(rds, list) else [rds]
    lists = [r for r in rds if r.params.get("VALUE") != "PERIOD"]
    pers = [r for r in rds if r.params.get("VALUE") == "PERIOD"]
    if len(lists) != 1 or len(lists[0].dts) != 2:
        c.fail("list:arity", elem, 2, [len(r.dts) for r in lists])
    else:
        chk("list[0]", lists[0].dts[0].dt, w)
        chk("list[1]", lists[0].dts[1].dt, w2)
    if len(pers) != 1 or len(pers[0].dts) != 1 or not isinstance(pers[0].dts[0].dt, tuple):
        c.fail("rdate-period:shape", elem, "one period", repr(pers))
    else:
        chk("rdate-period.start", pers[0].dts[0].dt[0], w)
        if pers[0].dts[0].dt[1] != timedelta(minutes=45):
            c.fail("rdate-period.duration", elem, "45 min", pers[0].dts[0].dt[1])
    fbs = fb2["FREEBUSY"]
    fbs = fbs if isinstance(fbs, list) else [fbs]
    if len(fbs) != 2:
        c.fail("freebusy:arity", elem, 2, len(fbs))
    else:
        chk("freebusy-explicit.start", fbs[0].start, w)
        if explicit_ok:
            chk("freebusy-explicit.end", fbs[0].end, w + timedelta(hours=2))
        chk("freebusy-duration.start", fbs[1].start, w)
        if fbs[1].duration != timedelta(hours=1, minutes=30) or not fbs[1].by_duration:
            c.fail("freebusy-duration.duration", elem, "1:30", (fbs[1].duration, fbs[1].by_duration))
    del want_off


def check_span(c, provider, source, key, mk_aware, t, o1, o2):
    """An explicit period that spans a transition: both ends keep their own wall clock."""
    c.n += 1
    s_w = t + timedelta(seconds=o1 - 3600)
    e_w = t + timedelta(seconds=o2 + 3600)
    elem = ("span", fmt(s_w), fmt(e_w))
    try:
        start, end = mk_aware(t - timedelta(hours=1)), mk_aware(t + timedelta(hours=1))
    except Exception as e:  # noqa: BLE001
        return c.fail("span:source-conversion", elem, "aware datetimes", f"{type(e).__name__}: {e}")
    if wall_of(start) != s_w or wall_of(end) != e_w:
        return  # the source library disagrees with the table about this transition: not a library matter
    fb = FreeBusy()
    try:
        fb.add("freebusy", (start, end))
    except ValueError:
        return  # same tzinfo object: Python compares wall clocks; a backward change >= 2h makes this an invalid period
    c.trans += 1
    try:
        data = fb.to_ical()
    except Exception as e:  # noqa: BLE001
        return c.fail("span:serialise-raises", elem, "bytes", f"{type(e).__name__}: {e}")
    line = prop_line(data, "FREEBUSY")[0]
    if not line.endswith(f":{fmt(s_w)}/{fmt(e_w)}"):
        c.fail("span:period-end-wall-time-changed", elem, f"{fmt(s_w)}/{fmt(e_w)}", line)


_PYTZ = None
_ZI = None


def pytz_knows(key):
    global _PYTZ
    if _PYTZ is None:
        import pytz
        _PYTZ = set(pytz.all_timezones)
    return key in _PYTZ


def zi_knows(key):
    global _ZI
    if _ZI is None:
        import zoneinfo
        _ZI = zoneinfo.available_timezones()
    return key in _ZI


def validate_reader(key):
    """Harness self-check: the independent TZif reader agrees with zoneinfo at every listed breakpoint +-1s and on a
    30-day grid.  A disagreement is a harness error, never a violation."""
    import zoneinfo
    bp = Z.zone_breakpoints(key, "zoneinfo")
    if bp is None:
        return
    z = zoneinfo.ZoneInfo(key)
    lo = Z.to_utc_seconds(datetime(1900, 1, 1, tzinfo=UTC))
    hi = Z.to_utc_seconds(datetime(2100, 1, 1, tzinfo=UTC))
    pts = [t + d for t, _ in bp[1] if lo <= t < hi for d in (-1, 0, 1)] + list(range(lo, hi, 30 * 86400))
    for t in pts:
        dt = Z.from_utc_seconds(t).astimezone(z)
        want = Z.offset_at(bp, t)
        if (int(dt.utcoffset().total_seconds()), dt.tzname()) != (want[0], want[2]):
            raise HarnessError(f"TZif reader disagrees with zoneinfo for {key} at {dt}: {want}")


def run_zone(case):
    _, provider, source, key, quick = case
    env.use_provider(provider)
    c = Chunk(case[:4])
    flavour = "pytz" if (provider == "pytz" and source != "zoneinfo") or source == "pytz" else "zoneinfo"
    if flavour == "pytz" and not pytz_knows(key):
        flavour = "zoneinfo"
    if flavour == "zoneinfo" and not zi_knows(key):
        flavour = "pytz"
    if flavour == "zoneinfo" and source == "zoneinfo" and provider == "zoneinfo":
        validate_reader(key)
    mk = make_source(source, key)
    if mk is None:
        return {"n": 0, "state": ("unavailable", source, key), "trans": 0, "traces": 0, "outcome": "source-unavailable", "fails": []}
    pts, spans = wall_points(key, flavour, quick)
    is_utc_key = key == "UTC"
    for w in pts:
        check_zoned(c, provider, source, key, mk, w, is_utc_key)
    if source == "zoneinfo":
        import zoneinfo
        tz = zoneinfo.ZoneInfo(key)
        mk_aware = lambda t: t.replace(tzinfo=UTC).astimezone(tz)  # noqa: E731
    elif source == "pytz":
        import pytz
        tz = pytz.timezone(key)
        mk_aware = lambda t: pytz.utc.localize(t).astimezone(tz)  # noqa: E731
    else:
        mk_aware = None
    if mk_aware and not is_utc_key:
        for t, o1, o2 in spans:
            check_span(c, provider, source, key, mk_aware, t, o1, o2)
    return {"n": c.n, "nstates": c.n, "nnontrivial": c.n - len(FIXED) if c.n > len(FIXED) else 0, "trans": c.trans, "traces": c.n,
            "state": (provider, source, key), "fails": c.fails, "outcome": "ok" if not c.fails else "FAIL:" + ",".join(sorted(c.seen))[:80]}


def run_utc_props(case):
    """DTSTAMP/CREATED/LAST-MODIFIED via add, DTSTAMP/LAST_MODIFIED/ACKNOWLEDGED via descriptors: same instant with Z."""
    _, provider, key = case
    env.use_provider(provider)
    c = Chunk(case)
    mk = make_source("zoneinfo" if provider == "zoneinfo" else "pytz", key)
    if mk is None:
        return {"n": 0, "state": ("unavailable", key), "trans": 0, "traces": 0, "outcome": "source-unavailable", "fails": []}
    for w in FIXED[:4] + (datetime(2024, 3, 31, 2, 30), datetime(2024, 10, 27, 2, 30)):
        val = mk(w)
        inst = val.astimezone(UTC)
        want = fmt(inst.replace(tzinfo=None)) + "Z"
        for how in ("add", "descriptor"):
            ev = Event()
            al = Alarm()
            c.n += 1
            c.trans += 1
            try:
                if how == "add":
                    ev.add("dtstamp", val)
                    ev.add("created", val)
                    ev.add("last-modified", val)
                else:
                    ev.DTSTAMP = val
                    ev.LAST_MODIFIED = val
                    al.ACKNOWLEDGED = val
                    ev.add_component(al)
                data = ev.to_ical()
            except Exception as e:  # noqa: BLE001
                c.fail("utc-property-raises", (how, fmt(w)), "bytes", f"{type(e).__name__}: {e}")
                continue
            names = ("DTSTAMP", "CREATED", "LAST-MODIFIED") if how == "add" else ("DTSTAMP", "LAST-MODIFIED", "ACKNOWLEDGED")
            for nme in names:
                ln = prop_line(data, nme)
                if ln != [f"{nme}:{want}"]:
                    c.fail("utc-property-not-the-instant-in-UTC", (how, nme, fmt(w)), f"{nme}:{want}", ln)
        # naive input counts as UTC
        ev = Event()
        ev.add("dtstamp", w)
        if prop_line(ev.to_ical(), "DTSTAMP") != [f"DTSTAMP:{fmt(w)}Z"]:
            c.fail("naive-utc-property", ("naive", fmt(w)), f"DTSTAMP:{fmt(w)}Z", prop_line(ev.to_ical(), "DTSTAMP"))
    # both occurrences of a repeated wall time (the zone's own latest fold before 2030), each tzinfo implementation's way
    # of saying which one is meant (fold attribute / is_dst), with and without microseconds
    flavour = "zoneinfo" if provider == "zoneinfo" else "pytz"
    folds = [(t, o1, o2) for t, o1, o2 in transitions_for(key, flavour, 1990, 2030) if o2 < o1]
    if folds:
        t, o1, o2 = folds[-1]
        wall = t + timedelta(seconds=o2) + timedelta(seconds=(o1 - o2) // 2)  # inside the repeated interval
        wall = wall.replace(microsecond=0)
        for second in (False, True):
            inst = wall - timedelta(seconds=o2 if second else o1)  # naive UTC
            want = fmt(inst) + "Z"
            for source in (("zoneinfo", "dateutil") if provider == "zoneinfo" else ("pytz", "zoneinfo")):
                for micro in (0, 250000):
                    w2 = wall.replace(microsecond=micro)
                    try:
                        if source == "pytz":
                            import pytz
                            val = pytz.timezone(key).localize(w2, is_dst=not second)
                            if val.utcoffset() != timedelta(seconds=o2 if second else o1):
                                continue  # is_dst does not select by order for this zone (negative DST): skip
                        else:
                            mk2 = make_source(source, key)
                            if mk2 is None:
                                continue
                            val = mk2(w2).replace(fold=1 if second else 0)
                            if val.utcoffset() != timedelta(seconds=o2 if second else o1):
                                continue  # this tz implementation reads the table differently here: not the library's business
                    except Exception:  # noqa: BLE001
                        continue
                    for how in ("add", "descriptor"):
                        ev = Event()
                        al = Alarm()
                        c.n += 1
                        c.trans += 1
                        try:
                            if how == "add":
                                ev.add("dtstamp", val)
                                ev.add("created", val)
                                ev.add("last-modified", val)
                            else:
                                ev.DTSTAMP = val
                                ev.LAST_MODIFIED = val
                                al.ACKNOWLEDGED = val
                                ev.add_component(al)
                            data = ev.to_ical()
                        except Exception as e:  # noqa: BLE001
                            c.fail("utc-property-raises", (how, source, fmt(wall), second, micro), "bytes", f"{type(e).__name__}: {e}")
                            continue
                        names = ("DTSTAMP", "CREATED", "LAST-MODIFIED") if how == "add" else ("DTSTAMP", "LAST-MODIFIED", "ACKNOWLEDGED")
                        for nme in names:
                            ln = prop_line(data, nme)
                            if ln != [f"{nme}:{want}"]:
                                c.fail("utc-property-in-a-fold-not-the-instant-meant", (how, source, nme, fmt(wall), "second" if second else "first", micro),
                                       f"{nme}:{want}", ln)
    return {"n": c.n, "nstates": c.n, "nnontrivial": c.n, "trans": c.trans, "traces": c.n, "state": ("utc", provider, key),
            "fails": c.fails, "outcome": "ok" if not c.fails else "FAIL"}


def run_case(case):
    return run_utc_props(case) if case[0] == "utc" else run_zone(case)


def replay(case):
    if case[0] == "utc":
        return run_utc_props(case[:3])
    return run_zone(case[:4] + (False,))


def zone_lists():
    import zoneinfo
    import pytz
    zi = sorted(k for k in zoneinfo.available_timezones() if k != "localtime")
    pz = sorted(pytz.all_timezones)
    return zi, pz


def run(ctx):
    zi, pz = zone_lists()
    ctx.rule = ("E-dom: every zone id of each provider (read at run time: %d zoneinfo, %d pytz) x wall times from the zone's own "
                "transitions (%s), each -1s/0/+1s in the old and the new offset, interval mid-points, 8 fixed times x shapes "
                "{DTSTART, RDATE list of 2, RDATE period, FREEBUSY explicit and by-duration period, explicit period spanning the "
                "transition} x tzinfo source {zoneinfo, pytz, dateutil} x provider; UTC properties for every zone via add and via "
                "descriptors. non-trivial = wall times derived from a transition." % (
                    len(zi), len(pz), "first and last three of 1970-2037" if ctx.quick else "all of 1900-2100"))
    ctx.bounds = {"zoneinfo_zones": len(zi), "pytz_zones": len(pz), "window": "1970-2037 first/last 3" if ctx.quick else "1900-2100 all"}
    ctx.assumptions += ["the provider library's own answer (ZoneInfo.utcoffset, pytz localize) is the ground truth for 'the offset the provider assigns'",
                        "dateutil tzinfo objects: wall time only (their TZID is an equivalent id chosen by the library's lookup table)",
                        "ambiguous wall times are checked with the provider's default disambiguation (fold=0 / is_dst=False)"]
    ctx.limit = 300.0

    def gen():
        for provider in env.PROVIDERS:
            zones = zi if provider == "zoneinfo" else pz
            for key in zones:
                for source in ("zoneinfo", "pytz", "dateutil"):
                    if ctx.quick and source == "dateutil" and (hash_key(key) % 4):
                        continue
                    yield ("zone", provider, source, key, ctx.quick)
                yield ("utc", provider, key)

    ctx.explore("zones", gen, run_case, recheck=False)


def hash_key(key):
    return sum(key.encode())
