"""CLI: python -m mc.runner <ID> [--tier quick|thorough] [--replay PATH] [--jobs N]

exit 0  the property held on everything explored (KNOWN-FINDING lines possible)
exit 1  at least one `VIOLATION property=<id> replay=<path>` line
exit 2  harness error (wrong tree imported, non-determinism, crashed worker) - never a violation
"""
import argparse
import ast
import importlib
import json
import os
import sys
import traceback


def main(argv=None):
    ap = argparse.ArgumentParser()
    ap.add_argument("prop")
    ap.add_argument("--tier", default=os.environ.get("VERIF_TIER") or "quick", choices=["quick", "thorough"])
    ap.add_argument("--replay")
    ap.add_argument("--jobs", type=int, default=int(os.environ.get("VERIF_JOBS") or 0) or min(16, os.cpu_count() or 4))
    ns = ap.parse_args(argv)
    try:
        seed = int(os.environ.get("VERIF_SEED") or 0)
    except ValueError:
        seed = 0
    prop = ns.prop.upper()
    try:
        from mc import env  # noqa: F401  (binds to the tree under test, exits 2 if it is the wrong one)
        from mc.core import Ctx, HarnessError
        mod = importlib.import_module(f"mc.checks.{prop.lower()}")
        if ns.replay:
            body = json.load(open(ns.replay))
            case = ast.literal_eval(body["case_repr"])
            if body.get("config") == "registered-subclasses":
                from mc import custom
                custom.install()
            res = mod.replay(case)
            fails = [f for f in res.get("fails", ())]
            print(json.dumps({"case": body["case_repr"], "outcome": res.get("outcome"),
                              "fails": [{k: repr(v) for k, v in f.items() if k != "unit_test"} for f in fails]},
                             indent=1))
            bad = [f for f in fails if not f.get("known")]
            if bad:
                print(f"VIOLATION property={prop} replay={ns.replay}")
            return 1 if bad else 0
        ctx = Ctx(prop, ns.tier, seed, ns.jobs)
        mod.run(ctx)
        return ctx.finish()
    except SystemExit:
        raise
    except HarnessError as e:
        sys.stderr.write(f"HARNESS-ERROR: {e}\n")
        return 2
    except BaseException:
        sys.stderr.write("HARNESS-ERROR: unexpected exception in the harness\n" + traceback.format_exc())
        return 2


if __name__ == "__main__":
    sys.exit(main())
