"""Values of user-defined subclasses of the standard date/time classes (what pandas.Timestamp, pendulum.DateTime or
freezegun's FakeDatetime are to the library): a date-time is a date-time, a date is a date."""
from datetime import date, datetime


class Stamp(datetime):
    pass


class Day(date):
    pass
