"""Bounded exhaustive model checking of collective/icalendar (see /verif/DESIGN.md)."""
