"""The 'registered subclasses' configuration: every class in the library's two registries (component_factory,
types_factory) is replaced by a user subclass that changes nothing (same name, empty body).  A user who registers own
classes this way - the documented extension point - relies on every property exactly as before, and the checks build
trees from the PLAIN library classes while the reader now produces the registered ones, so both kinds meet.

The subclasses live in this module under their base class's name (so pickling resolves them).
"""
import sys

_installed = {}
VENDOR_NAMES = ("X-COMP", "X-OUTER", "X-BOX", "X-WRAP")


def install():
    from icalendar import cal
    me = sys.modules[__name__]
    if _installed:
        return
    for reg_name, reg in (("component", cal.component_factory), ("type", cal.types_factory)):
        for key in list(reg.keys()):
            base = reg[key]
            sub = getattr(me, base.__name__, None)
            if sub is None:
                sub = type(base.__name__, (base,), {"__module__": __name__, "__doc__": "user subclass, nothing overridden"})
                setattr(me, base.__name__, sub)
            _installed[(reg_name, key)] = base
            reg[key] = sub
    # one generic class serving several non-standard component names (it has no `name` of its own), and value types for
    # two X- properties registered through the instance and through the class attribute the package exports
    Vendor = getattr(me, "Vendor", None) or type("Vendor", (cal.Component,), {"__module__": __name__})
    setattr(me, "Vendor", Vendor)
    for key in VENDOR_NAMES:
        _installed[("component", key)] = None
        cal.component_factory[key] = Vendor
    from icalendar.prop import TypesFactory
    _installed[("typemap", "X-SEATS")] = None
    cal.types_factory.types_map["X-SEATS"] = "integer"
    _installed[("typemap-class", "X-Published")] = None
    TypesFactory.types_map["X-Published"] = "date-time"


def uninstall():
    from icalendar import cal
    from icalendar.prop import TypesFactory
    for (reg_name, key), base in list(_installed.items()):
        if reg_name == "typemap":
            cal.types_factory.types_map.pop(key, None)
        elif reg_name == "typemap-class":
            TypesFactory.types_map.pop(key, None)
        elif base is None:
            cal.component_factory.pop(key, None)
        else:
            (cal.component_factory if reg_name == "component" else cal.types_factory)[key] = base
    _installed.clear()
