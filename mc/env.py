"""Binds the harness to the tree under test: import icalendar from $VERIF_REPO/src (default /repo/src)."""
import os
import sys

REPO = os.environ.get("VERIF_REPO", "/repo")
SRC = os.path.join(REPO, "src")
if SRC not in sys.path:
    sys.path.insert(0, SRC)
# a stale installed copy must never shadow the working tree
import icalendar  # noqa: E402

_real = os.path.realpath(icalendar.__file__)
if not _real.startswith(os.path.realpath(SRC) + os.sep):
    sys.stderr.write(f"HARNESS-ERROR: icalendar imported from {_real}, expected under {SRC}\n")
    sys.exit(2)

from icalendar.timezone import tzp  # noqa: E402

PROVIDERS = ("zoneinfo", "pytz")


def use_provider(name):
    """Select the time-zone provider; this also empties the process-wide VTIMEZONE cache."""
    tzp.use(name)


def assert_defaults():
    """Class-level switches the library exposes must be at their defaults before every case."""
    from icalendar.prop import vUTCOffset
    from icalendar.cal import Component, Event
    assert vUTCOffset.ignore_exceptions is False
    assert Component.ignore_exceptions is False and Event.ignore_exceptions is True
