"""RFC 5545 sections 3.7 / 3.8: property name -> (default value type, alternates, list?, containers).

Written from the RFC text, not copied from the library's types_map.  No icalendar imports.
"""

# type names: TEXT URI CAL-ADDRESS INTEGER FLOATPAIR DATE-TIME DATE DURATION PERIOD RECUR UTC-OFFSET
PROPS = {
    # 3.7 calendar properties
    "CALSCALE": ("TEXT", (), False, ("VCALENDAR",)),
    "METHOD": ("TEXT", (), False, ("VCALENDAR",)),
    "PRODID": ("TEXT", (), False, ("VCALENDAR",)),
    "VERSION": ("TEXT", (), False, ("VCALENDAR",)),
    # 3.8.1 descriptive
    "ATTACH": ("URI", ("BINARY",), False, ("VEVENT", "VALARM")),
    "CATEGORIES": ("TEXT", (), True, ("VEVENT", "VTODO")),
    "CLASS": ("TEXT", (), False, ("VEVENT", "VJOURNAL")),
    "COMMENT": ("TEXT", (), False, ("VEVENT", "VFREEBUSY")),
    "DESCRIPTION": ("TEXT", (), False, ("VEVENT", "VALARM")),
    "GEO": ("FLOATPAIR", (), False, ("VEVENT", "VTODO")),
    "LOCATION": ("TEXT", (), False, ("VEVENT", "VTODO")),
    "PERCENT-COMPLETE": ("INTEGER", (), False, ("VTODO",)),
    "PRIORITY": ("INTEGER", (), False, ("VEVENT", "VTODO")),
    "RESOURCES": ("TEXT", (), False, ("VEVENT", "VTODO")),
    "STATUS": ("TEXT", (), False, ("VEVENT", "VJOURNAL")),
    "SUMMARY": ("TEXT", (), False, ("VEVENT", "VALARM")),
    # 3.8.2 date and time
    "COMPLETED": ("DATE-TIME", (), False, ("VTODO",)),
    "DTEND": ("DATE-TIME", ("DATE",), False, ("VEVENT", "VFREEBUSY")),
    "DUE": ("DATE-TIME", ("DATE",), False, ("VTODO",)),
    "DTSTART": ("DATE-TIME", ("DATE",), False, ("VEVENT", "VTODO")),
    "DURATION": ("DURATION", (), False, ("VEVENT", "VALARM")),
    "FREEBUSY": ("PERIOD", (), True, ("VFREEBUSY",)),
    "TRANSP": ("TEXT", (), False, ("VEVENT",)),
    # 3.8.3 time zone
    "TZID": ("TEXT", (), False, ("VTIMEZONE",)),
    "TZNAME": ("TEXT", (), False, ("STANDARD", "DAYLIGHT")),
    "TZOFFSETFROM": ("UTC-OFFSET", (), False, ("STANDARD", "DAYLIGHT")),
    "TZOFFSETTO": ("UTC-OFFSET", (), False, ("STANDARD", "DAYLIGHT")),
    "TZURL": ("URI", (), False, ("VTIMEZONE",)),
    # 3.8.4 relationship
    "ATTENDEE": ("CAL-ADDRESS", (), False, ("VEVENT", "VALARM")),
    "CONTACT": ("TEXT", (), False, ("VEVENT", "VFREEBUSY")),
    "ORGANIZER": ("CAL-ADDRESS", (), False, ("VEVENT", "VJOURNAL")),
    "RECURRENCE-ID": ("DATE-TIME", ("DATE",), False, ("VEVENT", "VTODO")),
    "RELATED-TO": ("TEXT", (), False, ("VEVENT", "VTODO")),
    "URL": ("URI", (), False, ("VEVENT", "VFREEBUSY")),
    "UID": ("TEXT", (), False, ("VEVENT", "VJOURNAL")),
    # 3.8.5 recurrence
    "EXDATE": ("DATE-TIME", ("DATE",), True, ("VEVENT", "VTODO")),
    "RDATE": ("DATE-TIME", ("DATE", "PERIOD"), True, ("VEVENT", "VJOURNAL")),
    "RRULE": ("RECUR", (), False, ("VEVENT", "VTODO")),
    # 3.8.6 alarm
    "ACTION": ("TEXT", (), False, ("VALARM",)),
    "REPEAT": ("INTEGER", (), False, ("VALARM",)),
    "TRIGGER": ("DURATION", ("DATE-TIME",), False, ("VALARM",)),
    # 3.8.7 change management
    "CREATED": ("DATE-TIME", (), False, ("VEVENT", "VTODO")),
    "DTSTAMP": ("DATE-TIME", (), False, ("VEVENT", "VFREEBUSY")),
    "LAST-MODIFIED": ("DATE-TIME", (), False, ("VEVENT", "VTIMEZONE")),
    "SEQUENCE": ("INTEGER", (), False, ("VEVENT", "VTODO")),
    # 3.8.8 miscellaneous
    "REQUEST-STATUS": ("TEXT", (), False, ("VEVENT", "VFREEBUSY")),
}
UTC_ONLY = ("COMPLETED", "CREATED", "DTSTAMP", "LAST-MODIFIED")
# library classes that implement an RFC type (class names), used by the type clause
CLASS_FOR = {
    "TEXT": {"vText", "vCategory"},
    "URI": {"vUri"},
    "CAL-ADDRESS": {"vCalAddress"},
    "INTEGER": {"vInt"},
    "FLOATPAIR": {"vGeo"},
    "DATE-TIME": {"vDDDTypes", "vDDDLists", "vDatetime"},
    "DATE": {"vDDDTypes", "vDDDLists", "vDate"},
    "DURATION": {"vDDDTypes", "vDuration"},
    "PERIOD": {"vPeriod", "vDDDTypes", "vDDDLists"},
    "RECUR": {"vRecur"},
    "UTC-OFFSET": {"vUTCOffset"},
}
