"""Reference model of the RFC 5545 text layer (no icalendar imports).

* TEXT escaping (3.3.11) with the two documented normalisations of the library's encoder:
    N1: CRLF -> LF          N2: a literal backslash followed by 'N' -> LF
* parameter quoting (3.2), content-line writer / strict splitter (3.1)
* the *defect model* `contentline_placeholders` (DESIGN.md 2.1 / 6.1): the library's reader rewrites the four
  backslash pairs  \\, \\; \\: \\\\  of the WHOLE unfolded line to %2C %3B %3A %5C before splitting it, and decodes
  those four placeholders in the name, in every parameter value and in the value afterwards.  Pinned by the
  repository's own tests, hence an `open:` finding; `predict_parts` says exactly what the defective reader returns.
"""
import re


# ------------------------------------------------------------------ TEXT
def n1(s):
    return s.replace("\r\n", "\n")


def n2(s):
    return s.replace("\\N", "\n")


def expected_decodes(s):
    """The values the statement allows after encode+decode of s: both documented normalisations applied, each as
    one substitution pass, in either order (the statement does not fix the order; e.g. CR CR LF -> CR LF, and
    CR backslash-N -> LF or CR LF)."""
    return {n1(n2(s)), n2(n1(s))}


def spec_escape(s):
    """Escape an already normalised string."""
    out = []
    for ch in s:
        if ch == "\\":
            out.append("\\\\")
        elif ch == ";":
            out.append("\\;")
        elif ch == ",":
            out.append("\\,")
        elif ch == "\n":
            out.append("\\n")
        else:
            out.append(ch)
    return "".join(out)


_UNESC = re.compile(r"\\(.)|\r\n", re.S)


def spec_unescape(t):
    """Single left-to-right pass; unknown escapes are kept verbatim (lenient, like the library)."""
    def rep(m):
        c = m.group(1)
        if c is None:
            return "\n"
        if c in "nN":
            return "\n"
        if c in "\\;,":
            return c
        return m.group(0)
    return _UNESC.sub(rep, t)


def unescaped_positions(t, chars=";,"):
    """Positions of chars that are NOT preceded by an odd run of backslashes."""
    bad = []
    run = 0
    for i, ch in enumerate(t):
        if ch == "\\":
            run += 1
            continue
        if ch in chars and run % 2 == 0:
            bad.append(i)
        run = 0
    return bad


def split_unescaped_commas(t):
    items, cur, i = [], [], 0
    while i < len(t):
        ch = t[i]
        if ch == "\\" and i + 1 < len(t):
            cur.append(t[i:i + 2])
            i += 2
            continue
        if ch == ",":
            items.append("".join(cur))
            cur = []
        else:
            cur.append(ch)
        i += 1
    items.append("".join(cur))
    return items


# ------------------------------------------------------------------ placeholder defect model
_PH_ENC = (("\\,", "%2C"), ("\\:", "%3A"), ("\\;", "%3B"), ("\\\\", "%5C"))
_PH_DEC = (("%2C", ","), ("%3A", ":"), ("%3B", ";"), ("%5C", "\\"))


def ph_encode(s):
    for a, b in _PH_ENC:
        s = s.replace(a, b)
    return s


def ph_decode(s):
    for a, b in _PH_DEC:
        s = s.replace(a, b)
    return s


def ph_roundtrip(s):
    return ph_decode(ph_encode(s))


def ph_triggered(line):
    """The defect can only show on lines that contain one of the eight critical sequences."""
    return any(a in line for a, _ in _PH_ENC) or any(a in line for a, _ in _PH_DEC)


# ------------------------------------------------------------------ parameters / content lines
NAME_RE = re.compile(r"[A-Za-z0-9-]+\Z")
LIB_NAME_RE = re.compile(r"[\w.-]+\Z")
CTL = re.compile("[\x00-\x08\x0a-\x1f\x7f]")


def needs_quotes(v):
    return any(c in v for c in ",;:")


def write_param_value(v):
    """One parameter value as the RFC wants it ('\"' cannot be represented; library maps it to \"'\")."""
    v = v.replace('"', "'")
    return f'"{v}"' if needs_quotes(v) else v


def write_line(name, params, value):
    """params: list of (NAME, str | [str]); returns the unfolded content line."""
    out = [name]
    for k, v in params:
        vals = v if isinstance(v, (list, tuple)) else [v]
        out.append(";" + k + "=" + ",".join(write_param_value(x) for x in vals))
    return "".join(out) + ":" + value


class LineError(ValueError):
    pass


def parse_line(line, name_re=LIB_NAME_RE, missing_colon_ok=False):
    """Strict RFC 5545 3.1 splitter: -> (name, [(param name, [values], [was_quoted])], value text)."""
    n = len(line)
    i = 0
    while i < n and line[i] not in ";:":
        i += 1
    name = line[:i]
    if not name or not name_re.match(name):
        raise LineError(f"bad name {name!r}")
    params = []
    while i < n and line[i] == ";":
        i += 1
        j = i
        while j < n and line[j] not in "=;:":
            j += 1
        if j >= n or line[j] != "=":
            raise LineError("parameter without '='")
        pname = line[i:j]
        if not pname or not name_re.match(pname):
            raise LineError(f"bad parameter name {pname!r}")
        i = j + 1
        vals, quoted = [], []
        while True:
            if i < n and line[i] == '"':
                j = line.find('"', i + 1)
                if j < 0:
                    raise LineError("unterminated quoted string")
                v = line[i + 1:j]
                i = j + 1
                q = True
            else:
                j = i
                while j < n and line[j] not in ',;:"':
                    j += 1
                v = line[i:j]
                i = j
                q = False
            if CTL.search(v):
                raise LineError("control character in parameter value")
            vals.append(v)
            quoted.append(q)
            if i < n and line[i] == ",":
                i += 1
                continue
            break
        if i < n and line[i] not in ";:":
            raise LineError(f"junk after parameter value at {i}")
        params.append((pname, vals, quoted))
    if i >= n and missing_colon_ok and params:
        return name, params, ""  # the library reads `NAME;P=v` (no colon at all) as an empty value
    if i >= n or line[i] != ":":
        raise LineError("no value separator")
    return name, params, line[i + 1:]


def lib_parts_model(line):
    """What a *correct* reader with the library's documented leniencies returns for a library-written line:
    (NAME as written, {PARAM upper: str | [str]}, value)."""
    name, params, value = parse_line(line)
    d = {}
    for k, vals, _q in params:
        d[k.upper()] = vals[0] if len(vals) == 1 else list(vals)
    return name, d, value


_UNSAFE = re.compile('[\x00-\x08\x0a-\x1f\x7f",:;]')
_QUNSAFE = re.compile('[\x00-\x08\x0a-\x1f\x7f"]')


def _qsplit(st, sep, maxsplit=-1):
    """Quote-toggling splitter with the reader's leniencies (a lone quote opens a quoted region to the end)."""
    if maxsplit == 0:
        return [st]
    out, cursor, inq, splits = [], 0, False, 0
    for i, ch in enumerate(st):
        if ch == '"':
            inq = not inq
        if not inq and ch == sep:
            out.append(st[cursor:i])
            cursor = i + 1
            splits += 1
        if i + 1 == len(st) or splits == maxsplit:
            out.append(st[cursor:])
            break
    return out


def _lenient_params(st):
    d = {}
    for param in _qsplit(st, ";"):
        kv = _qsplit(param, "=", 1)
        if len(kv) != 2:
            raise LineError("parameter without '='")
        key, val = kv
        if not LIB_NAME_RE.match(key):
            raise LineError("bad parameter name")
        vals = []
        for v in _qsplit(val, ","):
            if v.startswith('"') and v.endswith('"'):
                v = v.strip('"')
                if _QUNSAFE.search(v):
                    raise LineError("unsafe char in quoted value")
            elif _UNSAFE.search(v):
                raise LineError("unsafe char in value")
            vals.append(v)
        d[key] = val if not vals else (vals[0] if len(vals) == 1 else vals)
    return d


def predict_parts(line):
    """The defective reader (placeholder mechanism), including its documented leniencies: placeholder-encode the whole
    line, find the first ':'/';' and the first ':' outside (toggled) quotes, read the parameters leniently, then decode
    the four placeholders in name, parameter names/values and value.  Raises LineError where the reader rejects."""
    st = ph_encode(line)
    name_split = value_split = None
    inq = False
    for i, ch in enumerate(st):
        if not inq:
            if ch in ":;" and not name_split:
                name_split = i
            if ch == ":" and not value_split:
                value_split = i
        if ch == '"':
            inq = not inq
    name = ph_decode(st[:name_split])
    if not name or not LIB_NAME_RE.match(name):
        raise LineError("bad name")
    if not value_split:
        value_split = len(st)
    if not name_split or name_split + 1 == value_split:
        raise LineError("invalid content line")
    raw = _lenient_params(st[name_split + 1:value_split])
    d = {}
    for k, v in raw.items():
        v = [ph_decode(x) for x in v] if isinstance(v, list) else ph_decode(v)
        d[ph_decode(k).upper()] = v
    return name, d, ph_decode(st[value_split + 1:])


_CARET = re.compile(r"\^([n^'])")


def rfc6868_decode(v):
    """RFC 6868 caret decoding, single pass (a conforming reader MAY apply it to parameter values)."""
    return _CARET.sub(lambda m: {"n": "\n", "^": "^", "'": '"'}[m.group(1)], v)
