"""Reference model for C17: a plain dict keyed by the upper-cased name (insertion ordered).

`pop(key)` without default answers None for a missing key: that default is part of the documented
signature `pop(self, key, default=None)` which the library's own setters rely on.
"""

MISSING = object()


def fold(k):
    if isinstance(k, bytes):
        k = k.decode("utf-8")
    return k.upper()


def pairs_of(m):
    return list(m.items()) if hasattr(m, "items") else list(m)


class Ref:
    def __init__(self, items=()):
        self.d = {}
        for k, v in items:
            self.d[fold(k)] = v

    def items(self):
        return list(self.d.items())

    def apply(self, op):
        """-> return value (exceptions are raised as in dict)."""
        d = self.d
        name = op[0]
        if name == "get":
            return d[fold(op[1])]
        if name == "set":
            d[fold(op[1])] = op[2]
            return None
        if name == "del":
            del d[fold(op[1])]
            return None
        if name in ("in", "has_key"):
            return fold(op[1]) in d
        if name == "getd":
            return d.get(fold(op[1]), *op[2:])
        if name == "pop":
            return d.pop(fold(op[1]), *(op[2:] or (None,)))
        if name == "popitem":
            return d.popitem()
        if name == "setdefault":
            return d.setdefault(fold(op[1]), *op[2:])
        if name in ("update_map", "update_pairs", "ior"):
            for k, v in op[1]:
                d[fold(k)] = v
            return None
        if name == "update_map_kw":
            for k, v in list(op[1]) + list(op[2]):
                d[fold(k)] = v
            return None
        if name == "update_kw":
            for k, v in op[1]:
                d[fold(k)] = v
            return None
        if name == "or":
            for k, v in op[1]:
                d[fold(k)] = v
            return None
        if name == "ror":
            new = {}
            for k, v in op[1]:
                new[fold(k)] = v
            for k, v in list(d.items()):
                new[k] = v
            self.d = new
            return None
        if name == "copy":
            self.d = dict(d)
            return None
        if name == "clear":
            d.clear()
            return None
        if name == "len":
            return len(d)
        if name == "keys":
            return list(d.keys())
        if name == "values":
            return list(d.values())
        if name == "items":
            return list(d.items())
        if name == "iter":
            return list(iter(d))
        if name == "eq":
            other = {fold(k): v for k, v in op[1]}
            return d == other
        if name == "ne":
            other = {fold(k): v for k, v in op[1]}
            return d != other
        raise AssertionError(op)


def canonsort(keys, canonical_order):
    """Priority names first in declared order, all other names after them alphabetically."""
    order = list(canonical_order or ())
    head = [k for k in order if k in keys]
    tail = sorted(k for k in keys if k not in order)
    return head + tail
