"""RFC 5545 section 3.3 value grammars (one regex each) and reference decoders.  No icalendar imports."""
import base64
import re
from datetime import date, datetime, time, timedelta, timezone
from decimal import Decimal

RX = {
    "DATE": re.compile(r"\d{8}\Z"),
    "DATE-TIME": re.compile(r"\d{8}T\d{6}Z?\Z"),
    "TIME": re.compile(r"\d{6}Z?\Z"),
    "DURATION": re.compile(r"[+-]?P(?:\d+W|\d+D(?:T(?:\d+H(?:\d+M(?:\d+S)?)?|\d+M(?:\d+S)?|\d+S))?"
                           r"|T(?:\d+H(?:\d+M(?:\d+S)?)?|\d+M(?:\d+S)?|\d+S))\Z"),
    "UTC-OFFSET": re.compile(r"[+-]\d{4}(?:\d{2})?\Z"),
    "INTEGER": re.compile(r"[+-]?\d+\Z"),
    "FLOAT": re.compile(r"[+-]?\d+(?:\.\d+)?\Z"),
    "BOOLEAN": re.compile(r"(?:TRUE|FALSE)\Z"),
    "BINARY": re.compile(r"(?:[A-Za-z0-9+/]{4})*(?:[A-Za-z0-9+/]{2}==|[A-Za-z0-9+/]{3}=)?\Z"),
    "WEEKDAYNUM": re.compile(r"(?:[+-]?\d{1,2})?(?:SU|MO|TU|WE|TH|FR|SA)\Z"),
    "FREQ": re.compile(r"(?:SECONDLY|MINUTELY|HOURLY|DAILY|WEEKLY|MONTHLY|YEARLY)\Z"),
    "MONTH": re.compile(r"\d{1,2}L?\Z"),
}
RX["PERIOD"] = re.compile(r"\d{8}T\d{6}Z?/(?:\d{8}T\d{6}Z?|" + RX["DURATION"].pattern[:-2] + r")\Z")
RX["GEO"] = re.compile(r"[+-]?\d+(?:\.\d+)?;[+-]?\d+(?:\.\d+)?\Z")

UTC = timezone.utc


def dec_date(t):
    return date(int(t[:4]), int(t[4:6]), int(t[6:8]))


def dec_time(t):
    return time(int(t[:2]), int(t[2:4]), int(t[4:6]))


def dec_datetime(t):
    """-> (naive datetime, is_utc)"""
    d = datetime(int(t[:4]), int(t[4:6]), int(t[6:8]), int(t[9:11]), int(t[11:13]), int(t[13:15]))
    return d, t.endswith("Z")


_DUR = re.compile(r"([+-]?)P(?:(\d+)W)?(?:(\d+)D)?(?:T(?:(\d+)H)?(?:(\d+)M)?(?:(\d+)S)?)?\Z")


def dec_duration(t):
    sign, w, d, h, m, s = _DUR.match(t).groups()
    secs = (int(w or 0) * 7 + int(d or 0)) * 86400 + int(h or 0) * 3600 + int(m or 0) * 60 + int(s or 0)
    return timedelta(seconds=-secs if sign == "-" else secs)


def dec_offset(t):
    secs = int(t[1:3]) * 3600 + int(t[3:5]) * 60 + int(t[5:7] or 0)
    return timedelta(seconds=-secs if t[0] == "-" else secs)


def dec_float(t):
    return float(Decimal(t))


def dec_binary(t):
    return base64.b64decode(t)


def dec_weekday(t):
    m = re.match(r"([+-]?)(\d{0,2})([A-Za-z]{2})\Z", t)
    sign, num, wd = m.groups()
    rel = int(num) if num else None
    if rel is not None and sign == "-":
        rel = -rel
    return rel, wd.upper()


def enc_date(d):
    return f"{d.year:04d}{d.month:02d}{d.day:02d}"


def enc_time(t):
    return f"{t.hour:02d}{t.minute:02d}{t.second:02d}"


def durations_grammar(vals=("0", "1", "10", "99")):
    """Every dur-value of the RFC ABNF with component values from `vals` (without sign)."""
    def dur_second():
        for s in vals:
            yield f"{s}S"

    def dur_minute():
        for m in vals:
            yield f"{m}M"
            for s in dur_second():
                yield f"{m}M{s}"

    def dur_hour():
        for h in vals:
            yield f"{h}H"
            for m in dur_minute():
                yield f"{h}H{m}"

    def dur_time():
        for x in dur_hour():
            yield "T" + x
        for x in dur_minute():
            yield "T" + x
        for x in dur_second():
            yield "T" + x

    for w in vals:
        yield f"P{w}W"
    for d in vals:
        yield f"P{d}D"
        for t in dur_time():
            yield f"P{d}D{t}"
    for t in dur_time():
        yield "P" + t
