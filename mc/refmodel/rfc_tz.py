"""Time-zone ground truth, independent of zoneinfo / pytz / dateutil and of icalendar:

* TZif (RFC 8536) reader: v2+ data block + POSIX-TZ footer expansion -> the list of UTC breakpoints of a zone with
  (utcoffset, isdst, abbreviation).  Files are located exactly as `zoneinfo` does (zoneinfo.TZPATH, then the tzdata wheel),
  or in pytz's bundled database.
* RFC 5545 3.6.5 VTIMEZONE onset interpreter: onsets = local DTSTART / RDATE / yearly BYMONTH;BYDAY rule, minus
  TZOFFSETFROM; in force at instant t = observance with the latest onset <= t.
"""
import bisect
import calendar
import os
import re
import struct
from datetime import date, datetime, timedelta, timezone

UTC = timezone.utc
EPOCH = datetime(1970, 1, 1, tzinfo=UTC)


# ------------------------------------------------------------------ TZif
def locate(key, flavour="zoneinfo"):
    if flavour == "pytz":
        import pytz
        p = os.path.join(os.path.dirname(pytz.__file__), "zoneinfo", *key.split("/"))
        return p if os.path.isfile(p) else None
    import zoneinfo
    for root in zoneinfo.TZPATH:
        p = os.path.join(root, *key.split("/"))
        if os.path.isfile(p):
            return p
    try:
        import tzdata
        p = os.path.join(os.path.dirname(tzdata.__file__), "zoneinfo", *key.split("/"))
        return p if os.path.isfile(p) else None
    except ImportError:
        return None


def read_tzif(path):
    """-> (transitions [(utc seconds, type index)], ttinfos [(utoff, isdst, abbr)], footer str)"""
    data = open(path, "rb").read()
    if data[:4] != b"TZif":
        raise ValueError("not TZif")
    version = data[4:5]

    def block(off, tsize):
        isutcnt, isstdcnt, leapcnt, timecnt, typecnt, charcnt = struct.unpack(">6l", data[off + 20:off + 44])
        p = off + 44
        fmt = ">%d%s" % (timecnt, "q" if tsize == 8 else "l")
        times = struct.unpack(fmt, data[p:p + timecnt * tsize])
        p += timecnt * tsize
        idx = struct.unpack(">%dB" % timecnt, data[p:p + timecnt])
        p += timecnt
        tt = []
        for i in range(typecnt):
            utoff, isdst, abbrind = struct.unpack(">lBB", data[p:p + 6])
            tt.append((utoff, isdst, abbrind))
            p += 6
        chars = data[p:p + charcnt]
        p += charcnt
        p += leapcnt * (tsize + 4) + isstdcnt + isutcnt
        ttinfos = []
        for utoff, isdst, abbrind in tt:
            end = chars.index(b"\x00", abbrind)
            ttinfos.append((utoff, isdst, chars[abbrind:end].decode("ascii")))
        return list(zip(times, idx)), ttinfos, p

    trans, ttinfos, end = block(0, 4)
    footer = ""
    if version >= b"2":
        trans, ttinfos, end2 = block(end, 8)
        rest = data[end2:]
        if rest.startswith(b"\n"):
            footer = rest[1:rest.index(b"\n", 1)].decode("ascii")
    return trans, ttinfos, footer


_NAME = r"(<[^>]+>|[A-Za-z]{3,})"
_OFF = r"([+-]?\d{1,3}(?::\d{1,2}(?::\d{1,2})?)?)"
_POSIX = re.compile("^" + _NAME + _OFF + "(?:" + _NAME + _OFF + "?(?:,([^,]+),([^,]+))?)?$")


def _secs(s, default=None):
    if s is None or s == "":
        return default
    sign = -1 if s.startswith("-") else 1
    parts = [int(x) for x in s.lstrip("+-").split(":")]
    parts += [0] * (3 - len(parts))
    return sign * (parts[0] * 3600 + parts[1] * 60 + parts[2])


def _rule_day(rule, year):
    """-> (days since 1 Jan of `year` as a date, seconds of day) for a POSIX rule `Mm.w.d[/time]`, `Jn`, `n`."""
    if "/" in rule:
        rule, t = rule.split("/", 1)
        tsec = _secs(t)
    else:
        tsec = 7200
    if rule.startswith("M"):
        m, w, d = (int(x) for x in rule[1:].split("."))
        first = date(year, m, 1)
        # d: 0 = Sunday
        shift = (d - (first.weekday() + 1) % 7) % 7
        day = 1 + shift + (w - 1) * 7
        ndays = calendar.monthrange(year, m)[1]
        while day > ndays:
            day -= 7
        return date(year, m, day), tsec
    if rule.startswith("J"):
        n = int(rule[1:])
        d = date(year, 1, 1) + timedelta(days=n - 1)
        if calendar.isleap(year) and n >= 60:
            d += timedelta(days=1)
        return d, tsec
    return date(year, 1, 1) + timedelta(days=int(rule)), tsec


def expand_footer(footer, from_utc, last_year):
    """Transitions (utc seconds, (utoff, isdst, abbr)) implied by the POSIX TZ string after `from_utc`."""
    m = _POSIX.match(footer)
    if not m:
        return [], None
    std, stdoff, dst, dstoff, start, end = m.groups()
    std = std.strip("<>")
    std_off = -_secs(stdoff)
    base = (std_off, 0, std)
    if not dst:
        return [], base
    dst = dst.strip("<>")
    dst_off = -_secs(dstoff) if dstoff else std_off + 3600
    if not start:
        start, end = "M3.2.0", "M11.1.0"
    out = []
    first_year = (EPOCH + timedelta(seconds=from_utc)).year - 1
    for y in range(first_year, last_year + 1):
        d1, t1 = _rule_day(start, y)
        d2, t2 = _rule_day(end, y)
        on = int((datetime(d1.year, d1.month, d1.day, tzinfo=UTC) - EPOCH).total_seconds()) + t1 - std_off
        off = int((datetime(d2.year, d2.month, d2.day, tzinfo=UTC) - EPOCH).total_seconds()) + t2 - dst_off
        out.append((on, (dst_off, 1, dst)))
        out.append((off, (std_off, 0, std)))
    out = sorted(x for x in out if x[0] > from_utc)
    return out, base


def zone_breakpoints(key, flavour="zoneinfo", last_year=2100):
    """-> (initial (utoff,isdst,abbr), [(utc seconds, (utoff,isdst,abbr)) ...]) with consecutive duplicates kept
    (a transition may change only the abbreviation or isdst)."""
    path = locate(key, flavour)
    if path is None:
        return None
    trans, ttinfos, footer = read_tzif(path)
    if not ttinfos:
        return None
    first_std = next((t for t in ttinfos if not t[1]), ttinfos[0])
    initial = first_std if trans else ttinfos[0]
    out = [(t, ttinfos[i]) for t, i in trans]
    if footer and flavour != "pytz":
        last = out[-1][0] if out else -2 ** 62
        extra, base = expand_footer(footer, last, last_year)
        if not out and base:
            initial = base
        out += extra
    return initial, out


def offset_at(bp, t):
    """(utoff, isdst, abbr) in force at utc second t."""
    initial, trans = bp
    i = bisect.bisect_right([x[0] for x in trans], t) - 1
    return initial if i < 0 else trans[i][1]


def to_utc_seconds(dt):
    return int((dt - EPOCH).total_seconds())


def from_utc_seconds(t):
    return EPOCH + timedelta(seconds=t)


# ------------------------------------------------------------------ VTIMEZONE interpreter
WD = {"MO": 0, "TU": 1, "WE": 2, "TH": 3, "FR": 4, "SA": 5, "SU": 6}


def nth_weekday(year, month, n, wd):
    """Date of the n-th (n>0) or n-th last (n<0) weekday wd of a month."""
    ndays = calendar.monthrange(year, month)[1]
    days = [d for d in range(1, ndays + 1) if date(year, month, d).weekday() == wd]
    return date(year, month, days[n - 1] if n > 0 else days[n])


class Observance:
    """kind 'STANDARD'|'DAYLIGHT'; offsets timedelta; onsets_local: naive datetimes (wall clock in offset_from)."""

    def __init__(self, kind, offset_from, offset_to, tzname, onsets_local):
        self.kind, self.offset_from, self.offset_to, self.tzname = kind, offset_from, offset_to, tzname
        self.onsets_local = sorted(set(onsets_local))

    def onsets_utc(self):
        return [o - self.offset_from for o in self.onsets_local]


def yearly_rule_onsets(dtstart, month, n, wd, until=None, count=None, horizon=2037):
    """Local onsets of DTSTART + RRULE:FREQ=YEARLY;BYMONTH=month;BYDAY=<n><wd> (dtstart synchronised with the rule)."""
    out = []
    y = dtstart.year
    while y <= horizon:
        d = nth_weekday(y, month, n, wd)
        o = datetime(d.year, d.month, d.day, dtstart.hour, dtstart.minute, dtstart.second)
        if o >= dtstart:
            if until is not None and o > until:
                break
            out.append(o)
            if count is not None and len(out) >= count:
                break
        y += 1
    return out


def in_force(observances, t_utc_naive):
    """Observance with the latest onset not after the (naive UTC) instant; None before the first onset."""
    best = None
    for ob in observances:
        ons = ob.onsets_utc()
        i = bisect.bisect_right(ons, t_utc_naive) - 1
        if i >= 0 and (best is None or ons[i] > best[0]):
            best = (ons[i], ob)
    return None if best is None else best[1]


def all_onsets_utc(observances):
    return sorted({o for ob in observances for o in ob.onsets_utc()})
