"""Reference model for RFC 5545 3.8.6 / RFC 9074 alarm time computation (C14) and acknowledgement (C15).

No icalendar imports.  `nadd` is the provider-native addition the design fixes as the meaning of "plus":
wall-clock for zoneinfo/dateutil tzinfo objects, absolute (normalize) for pytz tzinfo objects.
"""
from datetime import date, datetime, timedelta


def is_date(x):
    return isinstance(x, date) and not isinstance(x, datetime)


def nadd(dt, td):
    if is_date(dt):
        if td.seconds == 0 and td.microseconds == 0:
            return dt + td
        dt = datetime(dt.year, dt.month, dt.day)
    r = dt + td
    norm = getattr(r.tzinfo, "normalize", None)
    return norm(r) if norm else r


def component_end(start, end, duration):
    """RFC end of a VEVENT/VTODO: explicit end, start+DURATION, or the default."""
    if end is not None:
        return end
    if duration is not None:
        return start + duration
    return start + timedelta(days=1) if is_date(start) else start


def alarm_times(start, end_anchor, alarm):
    """alarm = dict(trigger=timedelta|datetime|None, related='START'|'END'|None, repeat=int|None, duration=timedelta|None)
    -> list of trigger times (first, then repeats)."""
    trig = alarm["trigger"]
    if trig is None:
        return []
    if isinstance(trig, timedelta):
        anchor = end_anchor if (alarm.get("related") or "START").upper() == "END" else start
        first = nadd(anchor, trig)
    else:
        first = trig
    out = [first]
    rep, dur = alarm.get("repeat"), alarm.get("duration")
    if rep and dur is not None:
        for k in range(1, rep + 1):
            out.append(nadd(first, dur * k))
    return out


def same_time(a, b):
    """Equal as alarm times: same kind (date / floating / aware) and equal value (instants for aware values)."""
    if is_date(a) or is_date(b):
        return is_date(a) and is_date(b) and a == b
    if (a.tzinfo is None) != (b.tzinfo is None):
        return False
    if a.tzinfo is None:
        return a == b
    # instants computed by hand: Python's == between two different tzinfo objects is never true for a wall time inside a
    # repeated hour (PEP 495), whatever the instants are
    return a.replace(tzinfo=None) - a.utcoffset() == b.replace(tzinfo=None) - b.utcoffset()


# ------------------------------------------------------------------ C15
def effective_trigger(trigger, snooze):
    if snooze is not None and snooze > trigger:
        return snooze
    return trigger


def is_active(trigger, ack_alarm, ack_component, snooze):
    """The statement's decision table; all arguments aware datetimes or None."""
    acks = [a for a in (ack_alarm, ack_component) if a is not None]
    if not acks:
        return True
    ack = max(acks)
    if snooze is not None and snooze > ack:
        return True
    return effective_trigger(trigger, snooze) > ack
