"""Reference reader for iCalendar component structure (RFC 5545 3.1, 3.4, 3.6) - no icalendar imports.

read(text, parts) -> list of root nodes; node = [NAME, [(PROP, {PARAM: value|[values]}, value_text), ...], [children]]
`parts` is the content-line splitter: rfc_text.lib_parts_model (what the text denotes) or rfc_text.predict_parts (the
documented placeholder defect).  The reader itself is strict about structure: a property outside a component, an END
without BEGIN or an unclosed component make the text ill-formed (NotWellFormed).
"""
import re

from mc.refmodel import rfc_text as R
from mc.refmodel import rfc_props as RP
from mc.refmodel import rfc_values as RV

_FOLD = re.compile(r"\r?\n[ \t]")
_EOL = re.compile(r"\r?\n")


class NotWellFormed(ValueError):
    pass


def logical_lines(text):
    if text.startswith("﻿"):
        text = text[1:]
    return [ln for ln in _EOL.split(_FOLD.sub("", text)) if ln]


def read(text, parts=R.lib_parts_model, strict_end=True, lenient=()):
    """lenient: component names inside which an unsplittable line is dropped instead of failing the read (the
    library's documented behaviour for VEVENT; used only when predicting the defective reader)."""
    roots, stack = [], []
    for ln in logical_lines(text):
        try:
            name, params, value = parts(ln)
        except R.LineError as e:
            if stack and stack[-1][0] in lenient:
                continue
            raise NotWellFormed(f"line {ln!r}: {e}")
        u = name.upper()
        if u == "BEGIN":
            stack.append([value.upper(), [], []])
        elif u == "END":
            if not stack:
                raise NotWellFormed("END without BEGIN")
            node = stack.pop()
            if strict_end and value.upper() != node[0]:
                raise NotWellFormed(f"END:{value} closes {node[0]}")
            (stack[-1][2] if stack else roots).append(node)
        else:
            if not stack:
                raise NotWellFormed("property outside a component")
            if u == "FREEBUSY":
                for item in value.split(","):
                    stack[-1][1].append((u, params, item))
            else:
                stack[-1][1].append((u, params, value))
    if stack:
        raise NotWellFormed("unclosed component")
    return roots


EXTRA_TYPES = {"ACKNOWLEDGED": "DATE-TIME", "EXRULE": "RECUR"}  # RFC 9074 / RFC 2445


def prop_type(name):
    if name in EXTRA_TYPES:
        return EXTRA_TYPES[name]
    return RP.PROPS.get(name, ("TEXT",))[0]


def canon_typed(t):
    """Typed value texts are compared by text, except durations, which have several spellings of one value."""
    if RV.RX["DURATION"].match(t):
        return f"duration:{RV.dec_duration(t).total_seconds()}"
    if "/" in t:  # periods (also in comma lists): the duration half is canonicalised the same way
        items = []
        for item in t.split(","):
            a, sep, b = item.partition("/")
            if sep and RV.RX["DURATION"].match(b):
                b = f"duration:{RV.dec_duration(b).total_seconds()}"
            items.append(a + sep + b)
        return ",".join(items)
    return t


def denoted(name, vtext, list_split=R.split_unescaped_commas):
    """What a value text denotes for comparison with the library's value (string-typed classes only)."""
    if name == "CATEGORIES":
        return ("cats", tuple(R.spec_unescape(i) for i in list_split(vtext)))
    t = prop_type(name)
    if t == "TEXT":
        return ("text", R.spec_unescape(vtext))
    if t in ("URI", "CAL-ADDRESS"):
        return ("raw", vtext)
    return ("typed", canon_typed(vtext))


def denoted_defect(name, vtext):
    """The same under the list defect: CATEGORIES are unescaped first and split at every comma afterwards."""
    if name == "CATEGORIES":
        return ("cats", tuple(R.spec_unescape(vtext).split(",")))
    return denoted(name, vtext)


def norm_params(p):
    out = {}
    for k, v in p.items():
        if isinstance(v, (list, tuple)):
            v = [str(x) for x in v]
            v = v[0] if len(v) == 1 else tuple(v)
        else:
            v = str(v)
        out[str(k).upper()] = v
    return tuple(sorted(out.items()))


_DTZ = re.compile(r"(\d{8}T\d{6})Z")


def utc_tzid_spelling(nparams, val):
    """With a TZID parameter that names UTC itself, 'hhmmss' and 'hhmmssZ' spell the same value (12:00 in the zone UTC IS
    12:00Z): compared without the designator.  Every other TZID: the text as it stands."""
    if val[0] == "typed" and any(k == "TZID" and v in ("UTC", "/UTC") for k, v in nparams):
        return ("typed", _DTZ.sub(r"\1", val[1]))
    return val


def model_lite(node, den=denoted):
    name, props, children = node
    by = {}
    for pname, params, vtext in props:
        np_ = norm_params(params)
        by.setdefault(pname, []).append((np_, utc_tzid_spelling(np_, den(pname, vtext))))
    return (name, tuple(sorted(by.items())), tuple(model_lite(c, den) for c in children))


def real_lite(c):
    """The same shape from a parsed icalendar component (duck-typed; no icalendar import)."""
    by = {}
    for pname in c.keys():
        vals = c[pname]
        vals = vals if isinstance(vals, list) else [vals]
        out = []
        for v in vals:
            cn = type(v).__name__
            params = norm_params(getattr(v, "params", {}) or {})
            if cn == "vCategory":
                val = ("cats", tuple(str(x) for x in v.cats))
            elif cn == "vText":
                val = ("text", str(v))
            elif cn in ("vUri", "vCalAddress", "vInline"):
                val = ("raw", str(v))
            else:
                try:
                    t = v.to_ical()
                    t = t.decode("utf-8") if isinstance(t, bytes) else t
                except Exception as e:  # noqa: BLE001
                    t = f"!{type(e).__name__}"
                val = utc_tzid_spelling(params, ("typed", canon_typed(t)))
            out.append((params, val))
        by[pname] = out
    return (c.name, tuple(sorted(by.items())), tuple(real_lite(s) for s in c.subcomponents))
